package main

// Gen/ConfigLoad.lean (owner: C14) — the statement skeleton of (*Config).Load and of loadSourcesSequential in
// config/config.go, and every mention of the field `values` of a Config in package config, as terms of
// Rivaas.ConfigSkel (lean/Rivaas/Model/ConfigSkel.lean). Tie/C14Load.lean compares them with the program the
// C14 state-machine theorems are about.
//
// Things are located by structure: the receiver whatever it is called, callee names (loadSourcesSequential,
// Validate on the field jsonSchemaCompiled, bindAndValidate, bind, Lock/Unlock/RLock/RUnlock on the field mu,
// normalizeMapKeys, mergo.Map, Load on the loop variable over the field sources), the fields values / binding /
// customValidators / sources — never the names of locals. What is not recognised is not dropped: a statement
// that touches the receiver in an unknown way becomes a `call` / `writeField` / `retOther` step, which the Tie
// theorem rejects. Like the C09 generator this one never makes the extractor exit: a problem is written into the
// generated file as `extractError := some "<reason>"` and Tie/C14Load.lean (`extraction_complete`) fails to build.

import (
	"fmt"
	"go/ast"
	"go/token"
	"path/filepath"
	"sort"
	"strconv"
	"strings"
)

type clErr struct{ msg string }

func clFail(n ast.Node, format string, a ...any) {
	where := ""
	if n != nil {
		p := fset.Position(n.Pos())
		where = fmt.Sprintf("%s:%d: ", filepath.Base(p.Filename), p.Line)
	}
	panic(clErr{where + fmt.Sprintf(format, a...)})
}

type clX struct {
	recv string // receiver name of the function being walked
	cand string // the variable assigned from loadSourcesSequential (the candidate map)
	pk   *pkg   // the package, to follow direct same-package helpers
}

// validatorHelper: c is `h(…)` with h a package-level function that is handed the validator fn and the candidate
// (two arguments, either order) and whose body does nothing but call the one on the other — `return pf(pv)` or
// `x = pf(pv)` … `return x` — possibly under a deferred recover(). Returns (is such a call, recovers).
func (x *clX) validatorHelper(c *ast.CallExpr, fn string) (bool, bool) {
	id, ok := c.Fun.(*ast.Ident)
	if !ok || x.pk == nil || len(c.Args) != 2 {
		return false, false
	}
	d := x.pk.funcs[id.Name]
	if d == nil || d.Body == nil {
		return false, false
	}
	var params []string
	for _, f := range d.Type.Params.List {
		for _, n := range f.Names {
			params = append(params, n.Name)
		}
	}
	if len(params) != 2 {
		return false, false
	}
	iFn, iVal := -1, -1
	for i, a := range c.Args {
		if u, ok := a.(*ast.UnaryExpr); ok && u.Op == token.AND {
			a = u.X
		}
		if clIsIdent(a, fn) {
			iFn = i
		} else if x.cand != "" && clIsIdent(a, x.cand) {
			iVal = i
		}
	}
	if iFn < 0 || iVal < 0 {
		return false, false
	}
	pf, pv := params[iFn], params[iVal]
	calls, recovers, other := 0, false, false
	for _, st := range d.Body.List {
		switch v := st.(type) {
		case *ast.DeferStmt:
			ast.Inspect(v, func(k ast.Node) bool {
				if cc, ok := k.(*ast.CallExpr); ok && clIsIdent(cc.Fun, "recover") {
					recovers = true
				}
				return true
			})
		case *ast.ReturnStmt, *ast.AssignStmt, *ast.DeclStmt:
			ast.Inspect(v, func(k ast.Node) bool {
				if cc, ok := k.(*ast.CallExpr); ok {
					if clIsIdent(cc.Fun, pf) && len(cc.Args) == 1 && clIsIdent(cc.Args[0], pv) {
						calls++
					} else {
						other = true
					}
				}
				return true
			})
		default:
			other = true
		}
	}
	return calls == 1 && !other, recovers
}

// rooted reports whether e is an expression rooted at the receiver (c, c.x, c.x.y, *c.x, c.x[i], &c.x …).
func (x *clX) rooted(e ast.Expr) bool {
	switch v := e.(type) {
	case *ast.Ident:
		return v.Name == x.recv
	case *ast.SelectorExpr:
		return x.rooted(v.X)
	case *ast.StarExpr:
		return x.rooted(v.X)
	case *ast.ParenExpr:
		return x.rooted(v.X)
	case *ast.IndexExpr:
		return x.rooted(v.X)
	case *ast.UnaryExpr:
		return x.rooted(v.X)
	}
	return false
}

// field returns the field name when e is exactly recv.<name>.
func (x *clX) field(e ast.Expr) string {
	if s, ok := e.(*ast.SelectorExpr); ok {
		if id, ok := s.X.(*ast.Ident); ok && id.Name == x.recv {
			return s.Sel.Name
		}
	}
	return ""
}

// throughValues: e denotes (part of) the map the field `values` points to.
func (x *clX) throughValues(e ast.Expr) bool {
	switch v := e.(type) {
	case *ast.StarExpr:
		return x.field(v.X) == "values" || x.throughValues(v.X)
	case *ast.ParenExpr:
		return x.throughValues(v.X)
	case *ast.IndexExpr:
		return x.throughValues(v.X)
	case *ast.SelectorExpr:
		return x.throughValues(v.X)
	}
	return false
}

// muCall recognises recv.mu.<name>() and returns name.
func (x *clX) muCall(e ast.Expr) string {
	c, ok := e.(*ast.CallExpr)
	if !ok || len(c.Args) != 0 {
		return ""
	}
	s, ok := c.Fun.(*ast.SelectorExpr)
	if !ok || x.field(s.X) != "mu" {
		return ""
	}
	return s.Sel.Name
}

func clIsIdent(e ast.Expr, name string) bool {
	id, ok := e.(*ast.Ident)
	return ok && id.Name == name
}

// errTest: `<id> != nil` → id
func errTest(e ast.Expr) string {
	b, ok := e.(*ast.BinaryExpr)
	if !ok || b.Op != token.NEQ || !clIsIdent(b.Y, "nil") {
		return ""
	}
	if id, ok := b.X.(*ast.Ident); ok {
		return id.Name
	}
	return ""
}

// returnsError: the block is a single `return …` whose last result is not the literal nil.
func returnsError(b *ast.BlockStmt) bool {
	if b == nil || len(b.List) != 1 {
		return false
	}
	r, ok := b.List[0].(*ast.ReturnStmt)
	if !ok || len(r.Results) == 0 {
		return false
	}
	return !clIsIdent(r.Results[len(r.Results)-1], "nil")
}

// candArg: the call has exactly one argument and it is the candidate (or its address).
func (x *clX) candArg(c *ast.CallExpr) bool {
	if x.cand == "" || len(c.Args) != 1 {
		return false
	}
	a := c.Args[0]
	if u, ok := a.(*ast.UnaryExpr); ok && u.Op == token.AND {
		a = u.X
	}
	return clIsIdent(a, x.cand)
}

// classify a call expression of Load into a fallible step name ("" when it is none of them).
func (x *clX) fallibleCall(e ast.Expr) (string, *ast.CallExpr) {
	c, ok := e.(*ast.CallExpr)
	if !ok {
		return "", nil
	}
	s, ok := c.Fun.(*ast.SelectorExpr)
	if !ok {
		return "", c
	}
	switch {
	case x.field(c.Fun) == "loadSourcesSequential":
		return "loadSources", c
	case x.field(c.Fun) == "bindAndValidate":
		return "bindAndValidate", c
	case x.field(c.Fun) == "bind":
		return "bind", c
	case s.Sel.Name == "Validate" && x.field(s.X) == "jsonSchemaCompiled":
		return "schema", c
	}
	return "", c
}

// touches: does the node mention the receiver at all (any identifier equal to the receiver name)?
func (x *clX) touches(n ast.Node) bool {
	found := false
	ast.Inspect(n, func(m ast.Node) bool {
		if id, ok := m.(*ast.Ident); ok && id.Name == x.recv {
			found = true
		}
		if _, ok := m.(*ast.GoStmt); ok {
			found = true
		}
		return !found
	})
	return found
}

// residue lists what an unrecognised statement does to the receiver: writes, calls, go statements.
func (x *clX) residue(n ast.Node) []string {
	var out []string
	ast.Inspect(n, func(m ast.Node) bool {
		switch v := m.(type) {
		case *ast.GoStmt:
			out = append(out, ".goStmt")
		case *ast.AssignStmt:
			for _, l := range v.Lhs {
				if x.throughValues(l) {
					out = append(out, ".writeThrough")
				} else if x.rooted(l) {
					out = append(out, ".writeField "+leanStr(src(l)))
				}
			}
		case *ast.IncDecStmt:
			if x.rooted(v.X) {
				out = append(out, ".writeField "+leanStr(src(v.X)))
			}
		case *ast.CallExpr:
			if x.rooted(v.Fun) {
				out = append(out, ".call "+leanStr(src(v.Fun)))
			}
			for _, a := range v.Args { // the receiver's state handed to someone else by address
				if u, ok := a.(*ast.UnaryExpr); ok && u.Op == token.AND && x.rooted(u.X) {
					out = append(out, ".call "+leanStr("&"+src(u.X)))
				}
				if x.throughValues(a) || x.field(a) == "values" {
					out = append(out, ".call "+leanStr("values passed to "+src(v.Fun)))
				}
			}
		case *ast.ReturnStmt:
			out = append(out, ".retOther")
		}
		return true
	})
	return out
}

// loadSteps walks a statement list of (*Config).Load.
func (x *clX) loadSteps(list []ast.Stmt) []string {
	var out []string
	for i := 0; i < len(list); i++ {
		st := list[i]
		switch v := st.(type) {
		case *ast.IfStmt:
			// `if ctx == nil { return errors.New(…) }`
			if b, ok := v.Cond.(*ast.BinaryExpr); ok && v.Init == nil && v.Else == nil && b.Op == token.EQL && clIsIdent(b.Y, "nil") {
				if id, ok := b.X.(*ast.Ident); ok && id.Name != x.recv && !x.touches(v.Body) {
					if returnsError(v.Body) {
						out = append(out, ".argCheck")
					} // else: locals only (`if newValues == nil { newValues = make(…) }`)
					continue
				}
			}
			// configuration guard `if c.<field> != nil { … }`: a nil schema / binding is one that never rejects
			if b, ok := v.Cond.(*ast.BinaryExpr); ok && v.Init == nil && v.Else == nil && b.Op == token.NEQ && clIsIdent(b.Y, "nil") {
				if f := x.field(b.X); f == "jsonSchemaCompiled" || f == "binding" {
					out = append(out, x.loadSteps(v.Body.List)...)
					continue
				}
			}
			// `if err = CALL; err != nil { return <error> }`
			if as, ok := v.Init.(*ast.AssignStmt); ok && len(as.Rhs) == 1 && v.Else == nil {
				if name, c := x.fallibleCall(as.Rhs[0]); name != "" {
					lhs, _ := as.Lhs[len(as.Lhs)-1].(*ast.Ident)
					if lhs != nil && errTest(v.Cond) == lhs.Name && returnsError(v.Body) && (name == "loadSources" || x.candArg(c)) {
						out = append(out, "."+name)
					} else {
						out = append(out, ".call "+leanStr(name+": unrecognised shape: "+src(v.Cond)))
					}
					continue
				}
			}
		case *ast.AssignStmt:
			// `newValues, err := c.loadSourcesSequential(ctx)` followed by `if err != nil { return err }`
			if len(v.Rhs) == 1 {
				if name, c := x.fallibleCall(v.Rhs[0]); name != "" {
					ok := false
					if lhs, isId := v.Lhs[len(v.Lhs)-1].(*ast.Ident); isId && i+1 < len(list) {
						if nx, isIf := list[i+1].(*ast.IfStmt); isIf && nx.Init == nil && nx.Else == nil && errTest(nx.Cond) == lhs.Name && returnsError(nx.Body) {
							ok = true
						}
					}
					if name == "loadSources" && len(v.Lhs) == 2 {
						if id, isId := v.Lhs[0].(*ast.Ident); isId {
							x.cand = id.Name
						}
					} else if !x.candArg(c) {
						ok = false
					}
					if ok {
						out = append(out, "."+name)
						i++
					} else {
						out = append(out, ".call "+leanStr(name+": unrecognised shape"))
					}
					continue
				}
			}
			// `c.values = &newValues`
			if len(v.Lhs) == 1 && len(v.Rhs) == 1 && x.field(v.Lhs[0]) == "values" {
				if u, ok := v.Rhs[0].(*ast.UnaryExpr); ok && u.Op == token.AND && x.cand != "" && clIsIdent(u.X, x.cand) {
					out = append(out, ".swap")
				} else {
					out = append(out, ".writeField "+leanStr("values = "+src(v.Rhs[0])))
				}
				continue
			}
		case *ast.ExprStmt:
			switch x.muCall(v.X) {
			case "Lock":
				out = append(out, ".lock")
				continue
			case "Unlock":
				out = append(out, ".unlock")
				continue
			}
		case *ast.DeferStmt:
			if x.muCall(v.Call) == "Unlock" {
				out = append(out, ".deferUnlock")
				continue
			}
		case *ast.RangeStmt:
			if x.field(v.X) == "customValidators" {
				out = append(out, x.validatorsLoop(v))
				continue
			}
		case *ast.ReturnStmt:
			if len(v.Results) == 1 && clIsIdent(v.Results[0], "nil") {
				out = append(out, ".retNil")
				continue
			}
		}
		// not recognised: locals only → nothing; otherwise say what it does to the receiver
		if x.touches(st) {
			r := x.residue(st)
			if len(r) == 0 {
				r = []string{".call " + leanStr("reads the receiver: "+src(st))}
			}
			out = append(out, r...)
		} else if clHasReturn(st) {
			out = append(out, ".retOther")
		}
	}
	return out
}

func clHasReturn(n ast.Node) bool {
	found := false
	ast.Inspect(n, func(m ast.Node) bool {
		if _, ok := m.(*ast.FuncLit); ok {
			return false
		}
		if _, ok := m.(*ast.ReturnStmt); ok {
			found = true
		}
		return !found
	})
	return found
}

// validatorsLoop: `for i, fn := range c.customValidators { … }`. Requirements: fn (the value variable) is called
// exactly once, with the candidate; an error test on the variable the result is assigned to is followed by the
// return of an error; nothing in the body writes the receiver. recovers: the call sits in a function literal
// that defers a function literal calling recover().
func (x *clX) validatorsLoop(r *ast.RangeStmt) string {
	fn, _ := r.Value.(*ast.Ident)
	if fn == nil {
		return ".call " + leanStr("customValidators: no value variable")
	}
	if res := x.residue(r.Body); len(res) > 0 {
		for _, s := range res {
			if s != ".retOther" {
				return ".call " + leanStr("customValidators: body touches the receiver: "+s)
			}
		}
	}
	calls, good, recovers := 0, false, false
	var resultVar string
	var walk func(n ast.Node, inLit bool, litRecovers bool)
	walk = func(n ast.Node, inLit bool, litRecovers bool) {
		ast.Inspect(n, func(m ast.Node) bool {
			switch v := m.(type) {
			case *ast.FuncLit:
				if m == n {
					return true
				}
				rec := false
				for _, s := range v.Body.List {
					if d, ok := s.(*ast.DeferStmt); ok {
						ast.Inspect(d, func(k ast.Node) bool {
							if c, ok := k.(*ast.CallExpr); ok && clIsIdent(c.Fun, "recover") {
								rec = true
							}
							return true
						})
					}
				}
				walk(v, true, rec)
				return false
			case *ast.AssignStmt:
				if len(v.Rhs) == 1 {
					if c, ok := v.Rhs[0].(*ast.CallExpr); ok && clIsIdent(c.Fun, fn.Name) {
						calls++
						if x.candArg(c) && len(v.Lhs) == 1 {
							if id, ok := v.Lhs[0].(*ast.Ident); ok {
								resultVar, good, recovers = id.Name, true, litRecovers
							}
						}
						return false
					}
					// the call handed to a direct same-package helper: `verr := runIt(fn, newValues)`
					if c, ok := v.Rhs[0].(*ast.CallExpr); ok {
						if isH, rec := x.validatorHelper(c, fn.Name); isH {
							calls++
							if len(v.Lhs) == 1 {
								if id, ok := v.Lhs[0].(*ast.Ident); ok {
									resultVar, good, recovers = id.Name, true, rec || litRecovers
								}
							}
							return false
						}
					}
				}
			case *ast.CallExpr:
				if clIsIdent(v.Fun, fn.Name) {
					calls++ // a call whose result is not kept
				}
			}
			return true
		})
	}
	walk(r.Body, false, false)
	if calls != 1 || !good {
		return ".call " + leanStr(fmt.Sprintf("customValidators: %d calls of the validator, recognised=%v", calls, good))
	}
	// `if <resultVar> != nil { return <error> }` directly in the loop body
	checked := false
	for _, s := range r.Body.List {
		if iff, ok := s.(*ast.IfStmt); ok && errTest(iff.Cond) == resultVar && returnsError(iff.Body) {
			checked = true
		}
	}
	if !checked {
		return ".call " + leanStr("customValidators: the verdict is not followed by a return of the error")
	}
	if recovers {
		return ".validators true"
	}
	return ".validators false"
}

// srcLoop: loadSourcesSequential.
func (x *clX) srcLoop(d *ast.FuncDecl) string {
	var loop *ast.RangeStmt
	loopIdx := -1
	for i, s := range d.Body.List {
		if r, ok := s.(*ast.RangeStmt); ok {
			if loop != nil {
				clFail(r, "loadSourcesSequential: a second loop")
			}
			loop, loopIdx = r, i
		}
	}
	if loop == nil {
		clFail(d, "loadSourcesSequential: no range loop")
	}
	overSources := x.field(loop.X) == "sources" && loop.Value != nil
	srcVar := ""
	if id, ok := loop.Value.(*ast.Ident); ok {
		srcVar = id.Name
	}
	// accumulator: the variable returned (first result) by the statement after the loop
	acc := ""
	returnsAcc := false
	if loopIdx+1 < len(d.Body.List) {
		if r, ok := d.Body.List[loopIdx+1].(*ast.ReturnStmt); ok && len(r.Results) == 2 && clIsIdent(r.Results[1], "nil") {
			if id, ok := r.Results[0].(*ast.Ident); ok {
				acc, returnsAcc = id.Name, loopIdx+2 == len(d.Body.List)
			}
		}
	}
	accFresh := false
	for _, s := range d.Body.List[:loopIdx] {
		if as, ok := s.(*ast.AssignStmt); ok && as.Tok == token.DEFINE && len(as.Lhs) == 1 && clIsIdent(as.Lhs[0], acc) && len(as.Rhs) == 1 {
			if src(as.Rhs[0]) == "make(map[string]any)" {
				accFresh = true
			}
		} else if x.touches(s) {
			// `if len(c.sources) == 0 { return make(map[string]any), nil }` reads the receiver only
			if res := x.residue(s); len(res) > 0 {
				for _, q := range res {
					if q != ".retOther" {
						clFail(s, "loadSourcesSequential: statement before the loop touches the receiver: %s", q)
					}
				}
			}
		}
	}
	var body []string
	confVar, normVar := "", ""
	list := loop.Body.List
	for i := 0; i < len(list); i++ {
		st := list[i]
		switch v := st.(type) {
		case *ast.IfStmt:
			// ctx.Err() != nil → return
			if b, ok := v.Cond.(*ast.BinaryExpr); ok && v.Init == nil && v.Else == nil && b.Op == token.NEQ && clIsIdent(b.Y, "nil") {
				if c, ok := b.X.(*ast.CallExpr); ok {
					if s, ok := c.Fun.(*ast.SelectorExpr); ok && s.Sel.Name == "Err" && returnsError(v.Body) {
						body = append(body, ".ctxCheck")
						continue
					}
				}
			}
			// conf == nil → conf = make(...)
			if b, ok := v.Cond.(*ast.BinaryExpr); ok && v.Init == nil && v.Else == nil && b.Op == token.EQL && clIsIdent(b.Y, "nil") && confVar != "" && clIsIdent(b.X, confVar) && len(v.Body.List) == 1 {
				if as, ok := v.Body.List[0].(*ast.AssignStmt); ok && len(as.Lhs) == 1 && clIsIdent(as.Lhs[0], confVar) && src(as.Rhs[0]) == "make(map[string]any)" {
					body = append(body, ".nilToEmpty")
					continue
				}
			}
			// if err = mergo.Map(&acc, norm, mergo.WithOverride); err != nil { return }
			if as, ok := v.Init.(*ast.AssignStmt); ok && len(as.Rhs) == 1 && v.Else == nil {
				if c, ok := as.Rhs[0].(*ast.CallExpr); ok && src(c.Fun) == "mergo.Map" {
					lhs, _ := as.Lhs[0].(*ast.Ident)
					if lhs == nil || errTest(v.Cond) != lhs.Name || !returnsError(v.Body) || len(c.Args) < 2 {
						body = append(body, ".call "+leanStr("mergo.Map: error not returned"))
						continue
					}
					intoAcc := false
					if u, ok := c.Args[0].(*ast.UnaryExpr); ok && u.Op == token.AND && acc != "" && clIsIdent(u.X, acc) {
						intoAcc = true
					}
					ofNorm := normVar != "" && clIsIdent(c.Args[1], normVar)
					override := len(c.Args) == 3 && src(c.Args[2]) == "mergo.WithOverride"
					body = append(body, fmt.Sprintf(".mergoMap %v %v %v", intoAcc, ofNorm, override))
					continue
				}
			}
		case *ast.AssignStmt:
			if len(v.Rhs) == 1 {
				if c, ok := v.Rhs[0].(*ast.CallExpr); ok {
					// conf, err := src.Load(ctx) ; if err != nil { return }
					if s, ok := c.Fun.(*ast.SelectorExpr); ok && s.Sel.Name == "Load" && srcVar != "" && clIsIdent(s.X, srcVar) && len(v.Lhs) == 2 {
						okShape := false
						if e, isId := v.Lhs[1].(*ast.Ident); isId && i+1 < len(list) {
							if nx, isIf := list[i+1].(*ast.IfStmt); isIf && nx.Init == nil && nx.Else == nil && errTest(nx.Cond) == e.Name && returnsError(nx.Body) {
								okShape = true
							}
						}
						if id, isId := v.Lhs[0].(*ast.Ident); isId {
							confVar = id.Name
						}
						if okShape {
							body = append(body, ".srcLoad")
							i++
						} else {
							body = append(body, ".call "+leanStr("src.Load: error not returned"))
						}
						continue
					}
					// norm := normalizeMapKeys(conf)
					if clIsIdent(c.Fun, "normalizeMapKeys") && len(c.Args) == 1 && confVar != "" && clIsIdent(c.Args[0], confVar) && len(v.Lhs) == 1 {
						if id, isId := v.Lhs[0].(*ast.Ident); isId {
							normVar = id.Name
							body = append(body, ".normalize")
							continue
						}
					}
				}
			}
		}
		if x.touches(st) {
			for _, q := range x.residue(st) {
				switch {
				case strings.HasPrefix(q, ".writeField"), strings.HasPrefix(q, ".call"):
					body = append(body, q)
				default:
					body = append(body, ".other "+leanStr(q))
				}
			}
		} else {
			body = append(body, ".other "+leanStr(src(st)))
		}
	}
	return fmt.Sprintf("{ rangesOverSources := %v, accFresh := %v, returnsAcc := %v,\n    body := [%s] }",
		overSources, accFresh, returnsAcc, strings.Join(body, ", "))
}

// valuesUses: every selector `.values` on a receiver of type Config in the package.
func clValuesUses(p *pkg) []string {
	var out []string
	ms := p.methods["Config"]
	names := make([]string, 0, len(ms))
	for n := range ms {
		names = append(names, n)
	}
	sort.Strings(names)
	for _, name := range names {
		d := ms[name]
		x := &clX{recv: recvName(d)}
		if x.recv == "" {
			continue
		}
		out = append(out, x.usesIn(name, d.Body, "none")...)
	}
	// plain functions must not reach the field at all (there is no Config receiver to go through)
	for fname, d := range p.funcs {
		ast.Inspect(d.Body, func(m ast.Node) bool {
			if s, ok := m.(*ast.SelectorExpr); ok && s.Sel.Name == "values" {
				// config.New / MustNew build the struct with a composite literal, not through a selector; a
				// selector here is on some other variable of unknown type: report it, the Tie rejects `other`.
				out = append(out, fmt.Sprintf("{ fn := %s, kind := .other, held := .none }", leanStr(fname+": "+src(s))))
			}
			return true
		})
	}
	sort.Strings(out)
	return out
}

// usesIn walks one function body (or function literal); held is what the enclosing scope established.
func (x *clX) usesIn(fn string, body *ast.BlockStmt, held string) []string {
	var out []string
	// lock discipline of this scope: a plain statement recv.mu.RLock()/Lock() directly followed by the matching defer
	for i, st := range body.List {
		if es, ok := st.(*ast.ExprStmt); ok {
			if k := x.muCall(es.X); k == "RLock" || k == "Lock" {
				want := map[string]string{"RLock": "RUnlock", "Lock": "Unlock"}[k]
				if i+1 < len(body.List) {
					if d, ok := body.List[i+1].(*ast.DeferStmt); ok && x.muCall(d.Call) == want {
						h := map[string]string{"RLock": "read", "Lock": "write"}[k]
						// everything after statement i+1 in this scope runs with the lock held
						out = append(out, x.usesInStmts(fn, body.List[:i], held)...)
						out = append(out, x.usesInStmts(fn, body.List[i+2:], h)...)
						return out
					}
				}
			}
		}
	}
	return x.usesInStmts(fn, body.List, held)
}

func (x *clX) usesInStmts(fn string, list []ast.Stmt, held string) []string {
	var out []string
	emit := func(kind string) {
		out = append(out, fmt.Sprintf("{ fn := %s, kind := .%s, held := .%s }", leanStr(fn), kind, held))
	}
	var visit func(n ast.Node)
	seen := map[ast.Node]bool{}
	visit = func(n ast.Node) {
		ast.Inspect(n, func(m ast.Node) bool {
			switch v := m.(type) {
			case *ast.FuncLit:
				out = append(out, x.usesIn(fn, v.Body, held)...)
				return false
			case *ast.AssignStmt:
				for _, l := range v.Lhs {
					if x.field(l) == "values" {
						emit("assignPtr")
						seen[l] = true
					} else if x.throughValues(l) {
						emit("derefWrite")
						markValues(x, l, seen)
					}
				}
			case *ast.IncDecStmt:
				if x.throughValues(v.X) {
					emit("derefWrite")
					markValues(x, v.X, seen)
				}
			case *ast.CallExpr:
				// delete(*c.values, k), clear(*c.values), maps.Copy(*c.values, …): first argument is written
				if id, ok := v.Fun.(*ast.Ident); ok && (id.Name == "delete" || id.Name == "clear") && len(v.Args) > 0 && x.throughValues(v.Args[0]) {
					emit("derefWrite")
					markValues(x, v.Args[0], seen)
				}
				if src(v.Fun) == "maps.Copy" && len(v.Args) == 2 && x.throughValues(v.Args[0]) {
					emit("derefWrite")
					markValues(x, v.Args[0], seen)
				}
				if src(v.Fun) == "mergo.Map" || src(v.Fun) == "mergo.Merge" {
					if len(v.Args) > 0 && (x.field(v.Args[0]) == "values" || x.throughValues(v.Args[0])) {
						emit("derefWrite")
						markValues(x, v.Args[0], seen)
					}
				}
			case *ast.BinaryExpr:
				if (v.Op == token.EQL || v.Op == token.NEQ) && clIsIdent(v.Y, "nil") && x.field(v.X) == "values" {
					emit("nilTest")
					seen[v.X] = true
				}
			case *ast.ReturnStmt:
				for _, r := range v.Results {
					if x.field(r) == "values" {
						emit("returnPtr")
						seen[r] = true
					}
				}
			case *ast.StarExpr:
				if x.field(v.X) == "values" && !seen[v.X] {
					emit("derefRead")
					seen[v.X] = true
				}
			case *ast.SelectorExpr:
				if x.field(v) == "values" && !seen[v] {
					emit("other")
					seen[v] = true
				}
			}
			return true
		})
	}
	for _, s := range list {
		visit(s)
	}
	return out
}

func markValues(x *clX, e ast.Expr, seen map[ast.Node]bool) {
	ast.Inspect(e, func(m ast.Node) bool {
		if s, ok := m.(*ast.SelectorExpr); ok && x.field(s) == "values" {
			seen[s] = true
		}
		return true
	})
}

// getSteps: the statement groups of getValueFromMap, by shape: the read lock, the nil test, the copy of the map
// header, strings.ToLower, the direct lookup with the lower-cased whole key (returning on a hit), strings.Split with
// its separator, the traversal loop (index expression on the current map, type assertion to map[string]any).
func (x *clX) getSteps(d *ast.FuncDecl) []string {
	var out []string
	lowered := ""
	for i, st := range d.Body.List {
		switch v := st.(type) {
		case *ast.ExprStmt:
			if k := x.muCall(v.X); k != "" {
				out = append(out, k)
				continue
			}
		case *ast.DeferStmt:
			if k := x.muCall(v.Call); k != "" {
				out = append(out, "defer "+k)
				continue
			}
		case *ast.IfStmt:
			if b, ok := v.Cond.(*ast.BinaryExpr); ok && v.Init == nil && b.Op == token.EQL && clIsIdent(b.Y, "nil") && x.field(b.X) == "values" {
				out = append(out, "values == nil: return nil")
				continue
			}
			// if val, ok := current[lowered]; ok { return val }
			if as, ok := v.Init.(*ast.AssignStmt); ok && len(as.Rhs) == 1 && len(as.Lhs) == 2 {
				if ix, ok := as.Rhs[0].(*ast.IndexExpr); ok && lowered != "" && clIsIdent(ix.Index, lowered) && len(v.Body.List) == 1 {
					if r, ok := v.Body.List[0].(*ast.ReturnStmt); ok && len(r.Results) == 1 && src(r.Results[0]) == src(as.Lhs[0]) {
						out = append(out, "direct lookup of the lower-cased key: return on hit")
						continue
					}
				}
			}
		case *ast.AssignStmt:
			if len(v.Rhs) == 1 && len(v.Lhs) == 1 {
				if se, ok := v.Rhs[0].(*ast.StarExpr); ok && x.field(se.X) == "values" {
					out = append(out, "copy of the map header")
					continue
				}
				if c, ok := v.Rhs[0].(*ast.CallExpr); ok {
					switch src(c.Fun) {
					case "strings.ToLower":
						if id, ok := v.Lhs[0].(*ast.Ident); ok {
							lowered = id.Name
						}
						out = append(out, "strings.ToLower")
						continue
					case "strings.Split":
						if len(c.Args) == 2 && lowered != "" && clIsIdent(c.Args[0], lowered) {
							if l, ok := ceLit(c.Args[1]); ok {
								out = append(out, "strings.Split of the lower-cased key at "+strconv.Quote(l))
								continue
							}
						}
					}
				}
			}
		case *ast.RangeStmt:
			hasIndex, hasAssert := false, false
			ast.Inspect(v.Body, func(n ast.Node) bool {
				switch w := n.(type) {
				case *ast.IndexExpr:
					hasIndex = true
				case *ast.TypeAssertExpr:
					if w.Type != nil && src(w.Type) == "map[string]any" {
						hasAssert = true
					}
				}
				return true
			})
			if hasIndex && hasAssert {
				out = append(out, "traversal loop")
				continue
			}
		case *ast.ReturnStmt:
			if i == len(d.Body.List)-1 && len(v.Results) == 1 && clIsIdent(v.Results[0], "nil") {
				out = append(out, "return nil")
				continue
			}
		}
		out = append(out, "other: "+src(st))
	}
	return out
}

func genConfigLoad(repo string) (out string) {
	const head = "/- GENERATED by extract/configload.go from config/*.go of the current working tree — do not edit, not committed.\n" +
		"   Statement skeletons of (*Config).Load and loadSourcesSequential and every mention of Config.values. -/\n" +
		"import Rivaas.Model.ConfigSkel\nnamespace Rivaas.Gen.ConfigLoad\nopen Rivaas.ConfigSkel\n\n"
	defer func() {
		if r := recover(); r != nil {
			msg := fmt.Sprint(r)
			if e, ok := r.(clErr); ok {
				msg = e.msg
			} else if e, ok := r.(fatalErr); ok {
				msg = e.msg
			}
			out = head + "def extractError : Option String := some " + leanStr(msg) + "\n" +
				"def loadSteps : List Step := []\n" +
				"def srcLoop : SrcLoop := { rangesOverSources := false, accFresh := false, returnsAcc := false, body := [] }\n" +
				"def valuesUses : List Use := []\ndef getSteps : List String := []\n\nend Rivaas.Gen.ConfigLoad\n"
		}
	}()
	p := parseDir(filepath.Join(repo, "config"))
	ms := p.methods["Config"]
	load, lss := ms["Load"], ms["loadSourcesSequential"]
	if load == nil || lss == nil {
		clFail(nil, "config: (*Config).Load or loadSourcesSequential not found")
	}
	x := &clX{recv: recvName(load), pk: p}
	if x.recv == "" {
		clFail(load, "Load has no named receiver")
	}
	steps := x.loadSteps(load.Body.List)
	y := &clX{recv: recvName(lss)}
	loop := y.srcLoop(lss)
	uses := clValuesUses(p)
	var b strings.Builder
	b.WriteString(head)
	b.WriteString("def extractError : Option String := none\n\n")
	b.WriteString("/-- (*Config).Load, statement groups in source order -/\ndef loadSteps : List Step := [\n  " + strings.Join(steps, ",\n  ") + "]\n\n")
	b.WriteString("/-- loadSourcesSequential -/\ndef srcLoop : SrcLoop :=\n  " + loop + "\n\n")
	b.WriteString("/-- every mention of the field `values` of a Config in package config (non-test files), sorted -/\ndef valuesUses : List Use := [\n  " + strings.Join(uses, ",\n  ") + "]\n\n")
	gv := ms["getValueFromMap"]
	var gs []string
	if gv == nil || recvName(gv) == "" {
		gs = []string{leanStr("getValueFromMap not found")}
	} else {
		for _, t := range (&clX{recv: recvName(gv), pk: p}).getSteps(gv) {
			gs = append(gs, leanStr(t))
		}
	}
	b.WriteString("/-- getValueFromMap, statement groups in source order -/\ndef getSteps : List String := [\n  " + strings.Join(gs, ",\n  ") + "]\n\n")
	b.WriteString("end Rivaas.Gen.ConfigLoad\n")
	return b.String()
}
