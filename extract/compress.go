package main

// Gen/Compress.lean (C15): structural facts of middleware/compression — the skeletons of the handler closure of New
// and of the compressWriter methods (events: extract/mwskel.go), the literal tables of shouldSkipStatus /
// shouldSkipContentType, the defaults of defaultConfig and what every With… option assigns.
// Tie/C15Compress.lean states what the model (Model/Compress.lean) relies on. Never exits (see mwskel.go).

import (
	"go/ast"
	"go/token"
	"path/filepath"
	"sort"
)

var compressVocab = []string{
	".Next", "defer", "defer:.Close", "defer:=.Response", "=.Response", // 1-5
	"chooseEncoding", ".Response.Header.Get(Content-Encoding)", "strings.HasSuffix", // 6-8
	"getBrotliWriterPool(.brotliLevel)", "getGzipWriterPool(.gzipLevel)", // 9-10
	".WriteHeader(http.StatusOK)", ".writer.Write", ".ResponseWriter.Write", ".holdBack", ".start", ".start(.buffer)", // 11-16
	".restoreHeader", ".ResponseWriter.Header.Get(Content-Encoding)", ".ResponseWriter.WriteHeader(.statusCode)", ".restoreTrailers", // 17-20
	"http.DetectContentType", ".initCompression", // 21-22
	".ResponseWriter.Header.Del(Content-Length)", ".ResponseWriter.Header.Set(Content-Encoding)", ".ResponseWriter.Header.Set(Vary)", // 23-25
	".pool.Get", ".Reset(.ResponseWriter)", "=.writer", ".writer.Close", ".Reset(nil)", ".pool.Put(.writer)", // 26-31
	".ResponseWriter.WriteHeader", "shouldSkipStatus", "shouldSkipContentType", "=.committed", "=.statusCode", // 32-36
	".Flush", ".Set(Content-Type)", "=.headersSent", "=.decided", "=.compress", "=.buffer", "=.trailers", // 37-43
	".Request.Header.Get(Accept-Encoding)", "[].excludePaths", "range.excludeExtensions", ".ResponseWriter.Header.Clone", // 44-47
	"clear", // 48
}

// httpStatus: the net/http status constants the package compares with (value table of the standard library)
var httpStatus = map[string]int64{"StatusOK": 200, "StatusNoContent": 204, "StatusNotModified": 304, "StatusPartialContent": 206,
	"StatusSwitchingProtocols": 101, "StatusRequestEntityTooLarge": 413, "StatusUnauthorized": 401, "StatusPermanentRedirect": 308}

func genCompress(repo string) string {
	g := newMwGen("Rivaas.Gen.Compress", "middleware/compression/*.go", compressVocab)
	var p *pkg
	g.guard("parse", func() { p = parseDir(filepath.Join(repo, "middleware", "compression")) })
	if p == nil {
		p = &pkg{funcs: map[string]*ast.FuncDecl{}, methods: map[string]map[string]*ast.FuncDecl{}}
	}
	// the handler closure of New
	var closure []ast.Stmt
	g.guard("New", func() {
		fl, _ := mwClosureOf(p.fn("", "New"))
		closure = fl.Body.List
	})
	g.skel("newHandler", "the closure `compression.New` returns", p, closure)
	for _, m := range []string{"Write", "WriteHeader", "start", "Flush", "initCompression", "Close", "restoreHeader", "restoreTrailers", "holdBack"} {
		var body []ast.Stmt
		g.guard(m, func() { body = p.fn("compressWriter", m).Body.List })
		g.skel("cw"+m, "`(*compressWriter)."+m+"`", p, body)
	}
	// shouldSkipStatus: the constants `code` is compared with
	var codes []int64
	g.guard("shouldSkipStatus", func() {
		ast.Inspect(p.fn("", "shouldSkipStatus").Body, func(n ast.Node) bool {
			if be, ok := n.(*ast.BinaryExpr); ok && be.Op == token.EQL {
				if sel, ok := be.Y.(*ast.SelectorExpr); ok {
					v, known := httpStatus[sel.Sel.Name]
					if !known {
						mwFail(be, "unknown status constant %s", src(be.Y))
					}
					codes = append(codes, v)
				} else if v, ok := evalInt(be.Y); ok {
					codes = append(codes, v)
				} else {
					mwFail(be, "comparison with something that is not a constant: %s", src(be))
				}
			} else if ok && be.Op != token.LOR {
				mwFail(be, "shouldSkipStatus is not a disjunction of equalities: %s", src(be))
			}
			return true
		})
		sort.Slice(codes, func(i, j int) bool { return codes[i] < codes[j] })
	})
	g.intList("skipStatus", "the status codes `shouldSkipStatus` names (sorted)", codes)
	// shouldSkipContentType: the literals strings.Contains tests the lower-cased type against
	var lits []string
	g.guard("shouldSkipContentType", func() {
		ast.Inspect(p.fn("", "shouldSkipContentType").Body, func(n ast.Node) bool {
			if c, ok := n.(*ast.CallExpr); ok && src(c.Fun) == "strings.Contains" && len(c.Args) == 2 {
				if s, ok := strLit(c.Args[1]); ok {
					lits = append(lits, s)
				}
			}
			return true
		})
	})
	g.strList("alwaysSkippedTypes", "the literals `shouldSkipContentType` always skips (in source order)", lits)
	var dflt, opts [][2]string
	g.guard("defaultConfig", func() { dflt = mwFields(p.fn("", "defaultConfig")) })
	g.pairs("defaults", "`defaultConfig()`: field, value (source text)", dflt)
	g.guard("options", func() { opts = mwOptionWrites(p) })
	g.pairs("optionWrites", "every `With…` option: what its closure assigns ($i = the option's i-th parameter)", opts)
	// the comparison that holds bytes back in Write: `len(cw.buffer)+len(data) < cw.holdBack()`
	var cmp []string
	g.guard("Write comparison", func() {
		ast.Inspect(p.fn("compressWriter", "Write").Body, func(n ast.Node) bool {
			if is, ok := n.(*ast.IfStmt); ok {
				if be, ok := is.Cond.(*ast.BinaryExpr); ok && mwHas(be.Y, func(m ast.Node) bool {
					c, ok := m.(*ast.CallExpr)
					return ok && src(c.Fun) != "len" && len(c.Args) == 0
				}, nil) && mwHas(be.X, func(m ast.Node) bool { c, ok := m.(*ast.CallExpr); return ok && src(c.Fun) == "len" }, nil) {
					cmp = append(cmp, be.Op.String())
				}
			}
			return true
		})
	})
	g.strList("holdBackCmp", "operator of the hold-back test of Write (`len(buffer)+len(data) OP holdBack()`)", cmp)
	return g.finish()
}
