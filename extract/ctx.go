package main

import (
	"fmt"
	"go/ast"
	"go/token"
	"sort"
	"strings"
)

// structFields lists the fields of a struct in declaration order (embedded fields by type name).
func structFields(p *pkg, name string) []string {
	st := p.structs[name]
	if st == nil {
		fatalf(token.NoPos, "struct %s not found in %s", name, p.dir)
	}
	var out []string
	for _, f := range st.Fields.List {
		if len(f.Names) == 0 {
			t := f.Type
			if s, ok := t.(*ast.StarExpr); ok {
				t = s.X
			}
			if sel, ok := t.(*ast.SelectorExpr); ok {
				out = append(out, sel.Sel.Name)
			} else {
				out = append(out, src(t))
			}
			continue
		}
		for _, n := range f.Names {
			out = append(out, n.Name)
		}
	}
	return out
}

func fieldType(p *pkg, st, field string) ast.Expr {
	for _, f := range p.structs[st].Fields.List {
		for _, n := range f.Names {
			if n.Name == field {
				return f.Type
			}
		}
	}
	return nil
}

// reset kinds
const (
	kUntouched = 0 // not mentioned by reset
	kZero      = 1 // c.F = nil | "" | false | 0
	kConst     = 2 // c.F = <other constant>
	kSelfGuard = 3 // if c.F != nil { …; c.F = nil }  /  if c.F > 0 { …; c.F = 0 }
	kEmptied   = 4 // if c.F != nil { clear(c.F) }
	kUsedSlots = 5 // for i := range min(c.G, N) { c.F[i] = "" } inside the guard of G
)

func recvField(e ast.Expr, recv string) (string, bool) {
	sel, ok := e.(*ast.SelectorExpr)
	if !ok || !isIdent(sel.X, recv) {
		return "", false
	}
	return sel.Sel.Name, true
}

func isZeroLit(e ast.Expr) bool {
	switch v := e.(type) {
	case *ast.Ident:
		return v.Name == "nil" || v.Name == "false"
	case *ast.BasicLit:
		return v.Value == `""` || v.Value == "0" || v.Value == "``"
	}
	return false
}

func isConstLit(e ast.Expr) bool {
	switch v := e.(type) {
	case *ast.BasicLit:
		return true
	case *ast.UnaryExpr:
		_, ok := v.X.(*ast.BasicLit)
		return ok
	case *ast.Ident:
		return v.Name == "true"
	}
	return false
}

type resetFacts struct {
	kind      map[string]int
	constSrc  map[string]string
	slotBound int
	slotGuard string
}

func analyseReset(p *pkg, fields []string) resetFacts {
	d := p.methods["Context"]["reset"]
	if d == nil {
		fatalf(token.NoPos, "(*Context).reset not found")
	}
	rn := recvName(d)
	rf := resetFacts{kind: map[string]int{}, constSrc: map[string]string{}}
	known := map[string]bool{}
	for _, f := range fields {
		known[f] = true
	}
	set := func(pos token.Pos, f string, k int) {
		if !known[f] {
			fatalf(pos, "reset mentions unknown field %s", f)
		}
		if old, dup := rf.kind[f]; dup && old != k {
			fatalf(pos, "reset treats field %s in two different ways", f)
		}
		rf.kind[f] = k
	}
	for _, st := range d.Body.List {
		switch v := st.(type) {
		case *ast.AssignStmt:
			if v.Tok != token.ASSIGN || len(v.Lhs) != 1 || len(v.Rhs) != 1 {
				fatalf(v.Pos(), "reset: unhandled assignment %s", src(v))
			}
			f, ok := recvField(v.Lhs[0], rn)
			if !ok {
				fatalf(v.Pos(), "reset: unhandled assignment target %s", src(v))
			}
			switch {
			case isZeroLit(v.Rhs[0]):
				set(v.Pos(), f, kZero)
			case isConstLit(v.Rhs[0]):
				set(v.Pos(), f, kConst)
				rf.constSrc[f] = src(v.Rhs[0])
			default:
				fatalf(v.Pos(), "reset: %s is assigned a non-constant", f)
			}
		case *ast.IfStmt:
			if v.Init != nil || v.Else != nil {
				fatalf(v.Pos(), "reset: unhandled if form")
			}
			b, ok := v.Cond.(*ast.BinaryExpr)
			if !ok {
				fatalf(v.Pos(), "reset: unhandled condition %s", src(v.Cond))
			}
			g, ok := recvField(b.X, rn)
			if !ok {
				fatalf(v.Pos(), "reset: unhandled condition %s", src(v.Cond))
			}
			neNil := b.Op == token.NEQ && isIdent(b.Y, "nil")
			gtZero := b.Op == token.GTR && src(b.Y) == "0"
			if !neNil && !gtZero {
				fatalf(v.Pos(), "reset: unhandled condition %s", src(v.Cond))
			}
			cleared := false
			bounds := map[string]string{} // local -> defining expression
			for _, bs := range v.Body.List {
				switch w := bs.(type) {
				case *ast.ExprStmt:
					c, ok := w.X.(*ast.CallExpr)
					if !ok {
						fatalf(w.Pos(), "reset: unhandled statement %s", src(w))
					}
					name, recv := calleeName(c)
					if recv == nil && name == "clear" && len(c.Args) == 1 {
						if f, ok := recvField(c.Args[0], rn); ok && f == g && neNil {
							set(w.Pos(), g, kEmptied)
							cleared = true
							continue
						}
						fatalf(w.Pos(), "reset: unhandled clear %s", src(w))
					}
					// calls that only involve the guarded field (c.cachedArena.reset(), arenaPool.Put(c.cachedArena))
					okCall := true
					ast.Inspect(c, func(n ast.Node) bool {
						if sel, ok := n.(*ast.SelectorExpr); ok && isIdent(sel.X, rn) && sel.Sel.Name != g {
							okCall = false
						}
						return true
					})
					if !okCall {
						fatalf(w.Pos(), "reset: call touches another field: %s", src(w))
					}
				case *ast.AssignStmt:
					if w.Tok == token.DEFINE && len(w.Lhs) == 1 && len(w.Rhs) == 1 {
						if id, ok := w.Lhs[0].(*ast.Ident); ok {
							bounds[id.Name] = src(w.Rhs[0])
							continue
						}
					}
					f, ok := recvField(w.Lhs[0], rn)
					if !ok || f != g || w.Tok != token.ASSIGN || len(w.Rhs) != 1 || !isZeroLit(w.Rhs[0]) {
						fatalf(w.Pos(), "reset: unhandled assignment %s", src(w))
					}
					set(w.Pos(), g, kSelfGuard)
					cleared = true
				case *ast.RangeStmt:
					// for i := range <bound> { c.A[i] = ""; c.B[i] = "" }
					if !gtZero || w.Key == nil || w.Value != nil {
						fatalf(w.Pos(), "reset: unhandled loop %s", firstLine(src(w)))
					}
					bound := src(w.X)
					if def, ok := bounds[bound]; ok {
						bound = def
					}
					var n int
					if _, err := fmt.Sscanf(bound, "min("+rn+"."+g+", %d)", &n); err != nil {
						fatalf(w.Pos(), "reset: loop bound %q is not min(%s.%s, N)", bound, rn, g)
					}
					rf.slotBound, rf.slotGuard = n, g
					key := w.Key.(*ast.Ident).Name
					for _, ls := range w.Body.List {
						as, ok := ls.(*ast.AssignStmt)
						if !ok || as.Tok != token.ASSIGN || len(as.Lhs) != 1 || !isZeroLit(as.Rhs[0]) {
							fatalf(ls.Pos(), "reset: unhandled loop statement %s", src(ls))
						}
						ix, ok := as.Lhs[0].(*ast.IndexExpr)
						if !ok || !isIdent(ix.Index, key) {
							fatalf(ls.Pos(), "reset: unhandled loop statement %s", src(ls))
						}
						f, ok := recvField(ix.X, rn)
						if !ok {
							fatalf(ls.Pos(), "reset: unhandled loop statement %s", src(ls))
						}
						at, isArr := fieldType(p, "Context", f).(*ast.ArrayType)
						if !isArr || at.Len == nil || src(at.Len) != fmt.Sprint(n) {
							fatalf(ls.Pos(), "reset: %s is not an array of the %d slots the loop clears", f, n)
						}
						set(ls.Pos(), f, kUsedSlots)
					}
				default:
					fatalf(bs.Pos(), "reset: unhandled statement form %T", bs)
				}
			}
			if !cleared {
				fatalf(v.Pos(), "reset: guarded block does not clear %s", g)
			}
		default:
			fatalf(st.Pos(), "reset: unhandled statement form %T", st)
		}
	}
	return rf
}

func idxList(fields []string, names []string) string {
	idx := map[string]int{}
	for i, f := range fields {
		idx[f] = i
	}
	var out []string
	for _, n := range names {
		i, ok := idx[n]
		if !ok {
			fatalf(token.NoPos, "unknown field %s", n)
		}
		out = append(out, fmt.Sprint(i))
	}
	return "[" + strings.Join(out, ", ") + "]"
}

// assignedIn lists the fields of `recv` assigned by top-level statements of a block, failing on
// anything that is not a plain assignment or a call.
func assignedTo(stmts []ast.Stmt, recv string) []string {
	var out []string
	for _, st := range stmts {
		if as, ok := st.(*ast.AssignStmt); ok && as.Tok == token.ASSIGN {
			for _, l := range as.Lhs {
				if f, ok := recvField(l, recv); ok {
					out = append(out, f)
				}
			}
		}
	}
	return out
}

func genCtx(router, app *pkg, fields []string) string {
	var b strings.Builder
	b.WriteString("/- GENERATED by extract/ from router/context.go, router/pool.go, app/context.go, app/context_pool.go, app/app.go\n   of the current working tree — do not edit, not committed. -/\n")
	b.WriteString("namespace Rivaas.Gen.Ctx\n\n")
	b.WriteString("/-- fields of router.Context in declaration order -/\ndef ctxFields : List String := [")
	for i, f := range fields {
		if i > 0 {
			b.WriteString(", ")
		}
		b.WriteString(leanStr(f))
	}
	b.WriteString("]\n\n")
	fmt.Fprintf(&b, "def fieldCount : Nat := %d\n\n", len(fields))
	rf := analyseReset(router, fields)
	b.WriteString("/-- how (*Context).reset treats each field: 0 untouched, 1 set to the zero value, 2 set to another constant,\n    3 cleared under a guard on itself (`if c.F != nil {…; c.F = nil}`, `if c.F > 0 {…; c.F = 0}`), 4 emptied with clear(),\n    5 the slots below the guarded counter are cleared -/\ndef resetKind : List (Nat × Nat) := [")
	for i, f := range fields {
		if i > 0 {
			b.WriteString(", ")
		}
		fmt.Fprintf(&b, "(%d, %d)", i, rf.kind[f])
	}
	b.WriteString("]\n\n")
	b.WriteString("/-- the same by field name (independent of the declaration order) -/\ndef resetKindByName : List (String × Nat) := [")
	for i, f := range fields {
		if i > 0 {
			b.WriteString(", ")
		}
		fmt.Fprintf(&b, "(%s, %d)", leanStr(f), rf.kind[f])
	}
	b.WriteString("]\n\n")
	var consts []string
	for f, c := range rf.constSrc {
		consts = append(consts, fmt.Sprintf("(%s, %s)", idxList(fields, []string{f})[1:len(idxList(fields, []string{f}))-1], leanStr(c)))
	}
	sort.Strings(consts)
	b.WriteString("def resetConst : List (Nat × String) := [" + strings.Join(consts, ", ") + "]\n\n")
	fmt.Fprintf(&b, "/-- `for i := range min(c.%s, %d)` clears the used parameter slots -/\ndef slotBound : Nat := %d\n", rf.slotGuard, rf.slotBound, rf.slotBound)
	if rf.slotGuard != "" {
		fmt.Fprintf(&b, "def slotGuard : Nat := %s\ndef slotGuardName : String := %s\n\n", strings.Trim(idxList(fields, []string{rf.slotGuard}), "[]"), leanStr(rf.slotGuard))
	} else {
		b.WriteString("def slotGuard : Nat := 1000000\ndef slotGuardName : String := \"\"\n\n")
	}
	// assignment-only Context methods
	x := &extractor{p: router}
	x.computeAssignOnly()
	var ms []string
	for m := range x.assignOnly {
		ms = append(ms, m)
	}
	sort.Strings(ms)
	b.WriteString("/-- Context methods that consist of field assignments only, with the fields they assign -/\ndef assignOnly : List (String × List Nat) := [")
	for i, m := range ms {
		if i > 0 {
			b.WriteString(", ")
		}
		var fs []string
		for _, f := range x.assignOnly[m] {
			fs = append(fs, f.field)
		}
		fmt.Fprintf(&b, "\n  (%s, %s)", leanStr(m), idxList(fields, fs))
	}
	b.WriteString("]\n\n")
	// sync.Pool New literal
	var poolNew []string
	for _, f := range router.files {
		ast.Inspect(f, func(n ast.Node) bool {
			if cl, ok := n.(*ast.CompositeLit); ok {
				if id, ok := cl.Type.(*ast.Ident); ok && id.Name == "Context" {
					for _, el := range cl.Elts {
						if kv, ok := el.(*ast.KeyValueExpr); ok {
							poolNew = append(poolNew, src(kv.Key))
						} else {
							fatalf(el.Pos(), "positional Context literal")
						}
					}
				}
			}
			return true
		})
	}
	sort.Strings(poolNew)
	poolNew = uniq(poolNew)
	b.WriteString("/-- fields mentioned by any `Context{…}` literal of the package (the pool's New) -/\ndef literalFields : List Nat := " + idxList(fields, poolNew) + "\n\n")

	// ---- app-level pool
	af := structFields(app, "Context")
	b.WriteString("/-- fields of app.Context -/\ndef appCtxFields : List String := [")
	for i, f := range af {
		if i > 0 {
			b.WriteString(", ")
		}
		b.WriteString(leanStr(f))
	}
	b.WriteString("]\n\n")
	put := app.methods["contextPool"]["Put"]
	if put == nil {
		fatalf(token.NoPos, "app.(*contextPool).Put not found")
	}
	pn := paramNames(put)
	if len(pn) != 1 {
		fatalf(put.Pos(), "contextPool.Put: unexpected signature")
	}
	var putCleared []string
	for _, st := range put.Body.List {
		switch v := st.(type) {
		case *ast.AssignStmt:
			f, ok := recvField(v.Lhs[0], pn[0])
			if !ok || len(v.Rhs) != 1 || !isZeroLit(v.Rhs[0]) {
				fatalf(v.Pos(), "contextPool.Put: unhandled assignment %s", src(v))
			}
			putCleared = append(putCleared, f)
		case *ast.ExprStmt:
			c, ok := v.X.(*ast.CallExpr)
			name, _ := calleeName(c)
			if !ok || name != "Put" {
				fatalf(v.Pos(), "contextPool.Put: unhandled statement %s", src(v))
			}
		default:
			fatalf(st.Pos(), "contextPool.Put: unhandled statement form %T", st)
		}
	}
	b.WriteString("/-- fields contextPool.Put sets to nil before the object goes back to the pool -/\ndef appPutCleared : List Nat := " + idxList(af, putCleared) + "\n\n")
	// wrapHandler: the closure gets, defers the cleanup, initialises, calls the handler
	wh := app.methods["App"]["wrapHandler"]
	if wh == nil {
		fatalf(token.NoPos, "app.(*App).wrapHandler not found")
	}
	var lit *ast.FuncLit
	if len(wh.Body.List) == 1 {
		if rs, ok := wh.Body.List[0].(*ast.ReturnStmt); ok && len(rs.Results) == 1 {
			lit, _ = rs.Results[0].(*ast.FuncLit)
		}
	}
	if lit == nil {
		fatalf(wh.Pos(), "wrapHandler is not `return func(rc *router.Context) {…}`")
	}
	var acVar string
	var initFields, deferCleared []string
	shape := []string{}
	for _, st := range lit.Body.List {
		switch v := st.(type) {
		case *ast.AssignStmt:
			if v.Tok == token.DEFINE && len(v.Lhs) == 1 && len(v.Rhs) == 1 {
				if c, ok := v.Rhs[0].(*ast.CallExpr); ok {
					if name, _ := calleeName(c); name == "Get" && acVar == "" {
						acVar = v.Lhs[0].(*ast.Ident).Name
						shape = append(shape, "get")
						continue
					}
				}
			}
			f, ok := recvField(v.Lhs[0], acVar)
			if !ok || v.Tok != token.ASSIGN {
				fatalf(v.Pos(), "wrapHandler: unhandled assignment %s", src(v))
			}
			initFields = append(initFields, f)
			if len(shape) == 0 || shape[len(shape)-1] != "init" {
				shape = append(shape, "init")
			}
		case *ast.DeferStmt:
			fl, ok := v.Call.Fun.(*ast.FuncLit)
			if !ok || len(v.Call.Args) != 0 {
				fatalf(v.Pos(), "wrapHandler: unhandled defer")
			}
			putSeen := false
			for _, ds := range fl.Body.List {
				switch w := ds.(type) {
				case *ast.AssignStmt:
					f, ok := recvField(w.Lhs[0], acVar)
					if !ok || len(w.Rhs) != 1 || !isZeroLit(w.Rhs[0]) || putSeen {
						fatalf(w.Pos(), "wrapHandler: unhandled deferred statement %s", src(w))
					}
					deferCleared = append(deferCleared, f)
				case *ast.ExprStmt:
					c, ok := w.X.(*ast.CallExpr)
					name, _ := calleeName(c)
					if !ok || name != "Put" || len(c.Args) != 1 || !isIdent(c.Args[0], acVar) {
						fatalf(w.Pos(), "wrapHandler: unhandled deferred statement %s", src(w))
					}
					putSeen = true
				default:
					fatalf(ds.Pos(), "wrapHandler: unhandled deferred statement form %T", ds)
				}
			}
			if !putSeen {
				fatalf(v.Pos(), "wrapHandler: deferred function does not Put the context back")
			}
			shape = append(shape, "deferPut")
		case *ast.ExprStmt:
			c, ok := v.X.(*ast.CallExpr)
			if !ok || len(c.Args) != 1 || !isIdent(c.Args[0], acVar) {
				fatalf(v.Pos(), "wrapHandler: unhandled statement %s", src(v))
			}
			shape = append(shape, "handler")
		default:
			fatalf(st.Pos(), "wrapHandler: unhandled statement form %T", st)
		}
	}
	b.WriteString("/-- fields wrapHandler assigns before calling the handler / clears in its deferred function -/\n")
	b.WriteString("def appWrapInit : List Nat := " + idxList(af, initFields) + "\n")
	b.WriteString("def appWrapDeferCleared : List Nat := " + idxList(af, deferCleared) + "\n")
	b.WriteString("/-- statement shape of the closure wrapHandler returns -/\ndef appWrapShape : List String := [")
	for i, s := range shape {
		if i > 0 {
			b.WriteString(", ")
		}
		b.WriteString(leanStr(s))
	}
	b.WriteString("]\n\n")
	b.WriteString(genPoolSites(router))
	b.WriteString("end Rivaas.Gen.Ctx\n")
	return b.String()
}

// genPoolSites lists every Get / Put on a package-level sync.Pool of package router with the function it occurs in,
// the condition of the innermost enclosing `if`, where a Get's result ends up / what a Put hands back, and what
// surrounds a Put (a reset() call on the same value before it, the value set to nil after it). The receiver and
// locals in front of a field are printed as `_`.
func genPoolSites(p *pkg) string {
	pools := map[string]bool{}
	for _, f := range p.files {
		for _, d := range f.Decls {
			gd, ok := d.(*ast.GenDecl)
			if !ok || gd.Tok != token.VAR {
				continue
			}
			for _, sp := range gd.Specs {
				vs := sp.(*ast.ValueSpec)
				for i, n := range vs.Names {
					if i < len(vs.Values) {
						if cl, ok := vs.Values[i].(*ast.CompositeLit); ok && src(cl.Type) == "sync.Pool" {
							pools[n.Name] = true
						}
					}
				}
			}
		}
	}
	canon := func(e ast.Node) string {
		t := src(e)
		// `<ident>.field…` -> `_.field…` for the leading identifier of a selector chain that is not a pool / package
		var out []string
		for _, w := range strings.Fields(t) {
			if i := strings.Index(w, "."); i > 0 {
				head := w[:i]
				ok := true
				for _, r := range head {
					if !(r == '_' || r >= 'a' && r <= 'z' || r >= 'A' && r <= 'Z' || r >= '0' && r <= '9') {
						ok = false
					}
				}
				if ok && !pools[head] && head != "sync" {
					w = "_" + w[i:]
				}
			}
			out = append(out, w)
		}
		return strings.Join(out, " ")
	}
	type site struct{ pool, kind, fn, guard, what, before, after string }
	var sites []site
	var names []string
	type fd struct {
		name string
		d    *ast.FuncDecl
	}
	var fns []fd
	for n, d := range p.funcs {
		fns = append(fns, fd{n, d})
	}
	for t, ms := range p.methods {
		for n, d := range ms {
			fns = append(fns, fd{t + "." + n, d})
		}
	}
	sort.Slice(fns, func(i, j int) bool { return fns[i].name < fns[j].name })
	for _, f := range fns {
		// walk with the stack of enclosing nodes
		var stack []ast.Node
		ast.Inspect(f.d.Body, func(n ast.Node) bool {
			if n == nil {
				stack = stack[:len(stack)-1]
				return true
			}
			stack = append(stack, n)
			c, ok := n.(*ast.CallExpr)
			if !ok {
				return true
			}
			sel, ok := c.Fun.(*ast.SelectorExpr)
			if !ok {
				return true
			}
			id, ok := sel.X.(*ast.Ident)
			if !ok || !pools[id.Name] || (sel.Sel.Name != "Get" && sel.Sel.Name != "Put") {
				return true
			}
			st := site{pool: id.Name, kind: strings.ToLower(sel.Sel.Name), fn: f.name, guard: "-", what: "-", before: "-", after: "-"}
			// innermost enclosing if + the statement list the call's statement sits in
			var encl ast.Stmt
			var block *ast.BlockStmt
			for i := len(stack) - 1; i >= 0; i-- {
				if is, ok := stack[i].(*ast.IfStmt); ok && st.guard == "-" {
					inBody := false
					for j := i + 1; j < len(stack); j++ {
						if stack[j] == ast.Node(is.Body) {
							inBody = true
						}
					}
					if inBody {
						st.guard = canon(is.Cond)
					}
				}
				if bs, ok := stack[i].(*ast.BlockStmt); ok && block == nil {
					block = bs
					if i+1 < len(stack) {
						encl, _ = stack[i+1].(ast.Stmt)
					}
				}
			}
			if st.kind == "put" && len(c.Args) == 1 {
				st.what = canon(c.Args[0])
				if _, ok := c.Args[0].(*ast.Ident); ok {
					st.what = "_" // a parameter / local
				}
			}
			if block != nil && encl != nil {
				for k, s2 := range block.List {
					if s2 != encl {
						continue
					}
					if st.kind == "get" {
						// the result (possibly through a checked type assertion into a local) ends up in: the
						// first later assignment in this block whose right side is that local, or the assignment itself
						local := ""
						if as, ok := encl.(*ast.AssignStmt); ok {
							if l0, ok := as.Lhs[0].(*ast.Ident); ok {
								local = l0.Name
							} else {
								st.what = canon(as.Lhs[0])
							}
						}
						if rs, ok := encl.(*ast.ReturnStmt); ok && len(rs.Results) > 0 {
							st.what = "return"
						}
						for _, s3 := range block.List[k+1:] {
							if as, ok := s3.(*ast.AssignStmt); ok && local != "" && len(as.Rhs) == 1 && isIdent(as.Rhs[0], local) {
								st.what = canon(as.Lhs[0])
							}
							if rs, ok := s3.(*ast.ReturnStmt); ok && local != "" && len(rs.Results) == 1 && isIdent(rs.Results[0], local) && st.what == "-" {
								st.what = "return"
							}
						}
					} else {
						if k > 0 {
							st.before = canon(block.List[k-1])
						}
						if k+1 < len(block.List) {
							st.after = canon(block.List[k+1])
						}
					}
				}
			}
			sites = append(sites, st)
			return true
		})
	}
	for n := range pools {
		names = append(names, n)
	}
	sort.Strings(names)
	var b strings.Builder
	b.WriteString("/-- package-level sync.Pool variables of package router -/\ndef pools : List String := " + oaStrList(names) + "\n\n")
	b.WriteString("/-- every Get / Put on them: pool, get|put, enclosing function, condition of the innermost enclosing `if`, where the\n    result goes / what is handed back, statement before, statement after (Put only) -/\ndef poolSites : List (List String) := [")
	for i, s := range sites {
		if i > 0 {
			b.WriteString(",")
		}
		b.WriteString("\n  " + oaStrList([]string{s.pool, s.kind, s.fn, s.guard, s.what, s.before, s.after}))
	}
	b.WriteString("]\n\n")
	return b.String()
}

func uniq(l []string) []string {
	var out []string
	for i, s := range l {
		if i == 0 || s != l[i-1] {
			out = append(out, s)
		}
	}
	return out
}
