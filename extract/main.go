// Command extract regenerates lean/Rivaas/Gen/*.lean from the current Go source of the repository
// (DESIGN.md §2.2 (B)). Syntax only (go/parser + go/ast, no go/types). It FAILS CLOSED: any statement
// or expression form it does not handle inside an extracted function makes it exit non-zero, never a
// silently smaller skeleton. Files are written only when their content changed.
//
//	extract <repo-root> <out-dir>
package main

import (
	"bytes"
	"fmt"
	"go/ast"
	"go/parser"
	"go/printer"
	"go/token"
	"os"
	"path/filepath"
	"sort"
	"strings"
)

var fset = token.NewFileSet()

type fatalErr struct{ msg string }

func fatalf(pos token.Pos, format string, a ...any) {
	where := ""
	if pos.IsValid() {
		p := fset.Position(pos)
		where = fmt.Sprintf("%s:%d: ", shortFile(p.Filename), p.Line)
	}
	panic(fatalErr{where + fmt.Sprintf(format, a...)})
}

var repoRoot string

func shortFile(f string) string {
	if r, err := filepath.Rel(repoRoot, f); err == nil {
		return r
	}
	return f
}

func src(n ast.Node) string {
	var b bytes.Buffer
	_ = printer.Fprint(&b, fset, n)
	return strings.Join(strings.Fields(b.String()), " ")
}

// pkg is one parsed package directory (non-test files).
type pkg struct {
	dir     string
	files   []*ast.File
	funcs   map[string]*ast.FuncDecl            // package-level functions
	methods map[string]map[string]*ast.FuncDecl // receiver type name -> method name -> decl
	structs map[string]*ast.StructType
}

func parseDir(dir string) *pkg {
	p := &pkg{dir: dir, funcs: map[string]*ast.FuncDecl{}, methods: map[string]map[string]*ast.FuncDecl{}, structs: map[string]*ast.StructType{}}
	ents, err := os.ReadDir(dir)
	if err != nil {
		fatalf(token.NoPos, "cannot read %s: %v", dir, err)
	}
	var names []string
	for _, e := range ents {
		n := e.Name()
		if e.IsDir() || !strings.HasSuffix(n, ".go") || strings.HasSuffix(n, "_test.go") {
			continue
		}
		names = append(names, n)
	}
	sort.Strings(names)
	for _, n := range names {
		f, err := parser.ParseFile(fset, filepath.Join(dir, n), nil, parser.SkipObjectResolution)
		if err != nil {
			fatalf(token.NoPos, "parse error: %v", err)
		}
		p.files = append(p.files, f)
		for _, d := range f.Decls {
			switch d := d.(type) {
			case *ast.FuncDecl:
				if d.Body == nil {
					continue
				}
				if d.Recv == nil {
					// verif_on.go / verif_off.go both declare verifYield: same name twice is fine for
					// functions that are never inlined; remember the first.
					if _, dup := p.funcs[d.Name.Name]; !dup {
						p.funcs[d.Name.Name] = d
					}
					continue
				}
				rt := recvType(d)
				if p.methods[rt] == nil {
					p.methods[rt] = map[string]*ast.FuncDecl{}
				}
				p.methods[rt][d.Name.Name] = d
			case *ast.GenDecl:
				for _, s := range d.Specs {
					if ts, ok := s.(*ast.TypeSpec); ok {
						if st, ok := ts.Type.(*ast.StructType); ok {
							p.structs[ts.Name.Name] = st
						}
					}
				}
			}
		}
	}
	return p
}

func recvType(d *ast.FuncDecl) string {
	t := d.Recv.List[0].Type
	if s, ok := t.(*ast.StarExpr); ok {
		t = s.X
	}
	if ix, ok := t.(*ast.IndexExpr); ok {
		t = ix.X
	}
	if id, ok := t.(*ast.Ident); ok {
		return id.Name
	}
	return src(t)
}

func recvName(d *ast.FuncDecl) string {
	if d.Recv == nil || len(d.Recv.List[0].Names) == 0 {
		return ""
	}
	return d.Recv.List[0].Names[0].Name
}

// ---------------------------------------------------------------- skeleton terms

type S interface{ lean(ind string) string }

type sEv struct{ term string }
type sSkip struct{}
type sRet struct{}
type sDefer struct{ term string }
type sSeq struct{ parts []S }
type sIte struct {
	atom int
	t, e S
}
type sScope struct {
	name string // emitted as a separate definition
	body S
}

func (e sEv) lean(string) string    { return "ev (" + e.term + ")" }
func (sSkip) lean(string) string    { return "skip" }
func (sRet) lean(string) string     { return "ret" }
func (d sDefer) lean(string) string { return "defer (" + d.term + ")" }
func (s sScope) lean(string) string { return "scope " + s.name }
func (s sSeq) lean(ind string) string {
	if len(s.parts) == 0 {
		return "skip"
	}
	if len(s.parts) == 1 {
		return s.parts[0].lean(ind)
	}
	var b strings.Builder
	b.WriteString("seqs [")
	for i, p := range s.parts {
		if i > 0 {
			b.WriteString(",")
		}
		b.WriteString("\n" + ind + "  " + p.lean(ind+"  "))
	}
	b.WriteString("]")
	return b.String()
}
func (s sIte) lean(ind string) string {
	return fmt.Sprintf("ite %d\n%s  (%s)\n%s  (%s)", s.atom, ind, s.t.lean(ind+"  "), ind, s.e.lean(ind+"  "))
}

func mkSeq(parts []S) S {
	var out []S
	for _, p := range parts {
		switch q := p.(type) {
		case nil:
		case sSkip:
		case sSeq:
			out = append(out, q.parts...)
		default:
			out = append(out, p)
		}
	}
	if len(out) == 0 {
		return sSkip{}
	}
	if len(out) == 1 {
		return out[0]
	}
	return sSeq{out}
}

// visit calls f on every node of a skeleton term.
func visit(s S, f func(S)) {
	f(s)
	switch q := s.(type) {
	case sSeq:
		for _, p := range q.parts {
			visit(p, f)
		}
	case sIte:
		visit(q.t, f)
		visit(q.e, f)
	case sScope:
		visit(q.body, f)
	}
}

// ---------------------------------------------------------------- code tables

type table struct {
	ids   map[string]int
	names []string
}

func newTable(first ...string) *table {
	t := &table{ids: map[string]int{}}
	for _, f := range first {
		t.id(f)
	}
	return t
}

func (t *table) id(s string) int {
	if i, ok := t.ids[s]; ok {
		return i
	}
	t.ids[s] = len(t.names)
	t.names = append(t.names, s)
	return len(t.names) - 1
}

func leanStr(s string) string {
	var b strings.Builder
	b.WriteByte('"')
	for _, r := range s {
		switch {
		case r == '"' || r == '\\':
			b.WriteByte('\\')
			b.WriteRune(r)
		case r < 32 || r > 126:
			fmt.Fprintf(&b, "\\u{%x}", r)
		default:
			b.WriteRune(r)
		}
	}
	b.WriteByte('"')
	return b.String()
}

func (t *table) lean() string {
	var b strings.Builder
	b.WriteString("[")
	for i, n := range t.names {
		if i > 0 {
			b.WriteString(",")
		}
		fmt.Fprintf(&b, "\n  (%d, %s)", i, leanStr(n))
	}
	b.WriteString("]")
	return b.String()
}

// ---------------------------------------------------------------- output

func writeIfChanged(path, content string) {
	old, err := os.ReadFile(path)
	if err == nil && string(old) == content {
		return
	}
	tmp := path + ".tmp"
	if err := os.WriteFile(tmp, []byte(content), 0o644); err != nil {
		fatalf(token.NoPos, "write %s: %v", tmp, err)
	}
	if err := os.Rename(tmp, path); err != nil {
		fatalf(token.NoPos, "rename %s: %v", path, err)
	}
}

func main() {
	if len(os.Args) != 3 {
		fmt.Fprintln(os.Stderr, "usage: extract <repo-root> <out-dir>")
		os.Exit(2)
	}
	repoRoot = os.Args[1]
	outDir := os.Args[2]
	defer func() {
		if r := recover(); r != nil {
			if fe, ok := r.(fatalErr); ok {
				fmt.Fprintln(os.Stderr, "extract: UNHANDLED (failing closed): "+fe.msg)
				os.Exit(3)
			}
			panic(r)
		}
	}()
	if err := os.MkdirAll(outDir, 0o755); err != nil {
		fatalf(token.NoPos, "%v", err)
	}
	// Each of the four original generators fails closed ON ITS OWN: when one of them meets a statement form it does
	// not handle, its file is replaced by a stub that only carries the reason, so that exactly the Tie modules that
	// import it stop building (C03/C08 for Serve and Ctx, C12 for Guards) and the other properties are not affected.
	// (Gen/Consts.lean isolates per constant, see consts.go; the later generators record a `problem` themselves.)
	var problems []string
	isolated := func(file, ns string, gen func() string) {
		content := func() (out string) {
			defer func() {
				if r := recover(); r != nil {
					fe, ok := r.(fatalErr)
					if !ok {
						panic(r)
					}
					problems = append(problems, file+": "+fe.msg)
					out = "/- GENERATED by extract/ — the extractor FAILED CLOSED on the current source; every theorem that needs this file stops checking. -/\nnamespace " + ns + "\n\n/-- why nothing was generated -/\ndef extractProblem : String := " + leanStr(fe.msg) + "\n\nend " + ns + "\n"
				}
			}()
			return gen()
		}()
		writeIfChanged(filepath.Join(outDir, file), content)
	}
	var router, app *pkg
	var ctxFields []string
	parsed := func() {
		if router == nil {
			router = parseDir(filepath.Join(repoRoot, "router"))
			app = parseDir(filepath.Join(repoRoot, "app"))
			ctxFields = structFields(router, "Context")
		}
	}
	isolated("Serve.lean", "Rivaas.Gen.Serve", func() string { parsed(); return genServe(router, ctxFields) })
	isolated("Ctx.lean", "Rivaas.Gen.Ctx", func() string { parsed(); return genCtx(router, app, ctxFields) })
	isolated("Consts.lean", "Rivaas.Gen.Consts", genConsts)
	isolated("Guards.lean", "Rivaas.Gen.Guards", func() string {
		parsed()
		return genGuards(router, parseDir(filepath.Join(repoRoot, "router", "route")))
	})
	defer func() {
		// one line per problem for ./check (it quotes them when a Tie module stops building); never an exit code
		// that would take unrelated properties down
		problems = append(problems, constProblems...)
		writeIfChanged(filepath.Join(outDir, "PROBLEMS.txt"), strings.Join(problems, "\n"))
		for _, p := range problems {
			fmt.Fprintln(os.Stderr, "extract: failing closed: "+p)
		}
	}()
	// C09 (extract/lifecycle.go): never exits; a problem is recorded inside the generated file
	writeIfChanged(filepath.Join(outDir, "Lifecycle.lean"), genLifecycle(repoRoot))
	writeIfChanged(filepath.Join(outDir, "BindFacts.lean"), genBindFacts(repoRoot))         // C04 (extract/bindfacts.go): never exits
	writeIfChanged(filepath.Join(outDir, "ConfigLoad.lean"), genConfigLoad(repoRoot))       // C14 (extract/configload.go): never exits
	writeIfChanged(filepath.Join(outDir, "ConfigEnv.lean"), genConfigEnv(repoRoot))         // C14 (extract/configenv.go): never exits
	writeIfChanged(filepath.Join(outDir, "OpenAPIRanges.lean"), genOpenAPIRanges(repoRoot)) // C07 (extract/oaranges.go): never exits
	writeIfChanged(filepath.Join(outDir, "OpenAPIBuild.lean"), genOpenAPIBuild(repoRoot))   // C07 (extract/oabuild.go): never exits
	// C15 / C17 (extract/compress.go, extract/gates.go, walker extract/mwskel.go): never exit either
	writeIfChanged(filepath.Join(outDir, "Compress.lean"), genCompress(repoRoot))
	writeIfChanged(filepath.Join(outDir, "Gates.lean"), genGates(repoRoot))
	writeIfChanged(filepath.Join(outDir, "AppGuards.lean"), genAppGuards(repoRoot)) // C12 app layer (extract/appguards.go): never exits
	writeIfChanged(filepath.Join(outDir, "Version.lean"), genVersion(repoRoot))       // C13 (extract/version.go): never exits
	writeIfChanged(filepath.Join(outDir, "ObsApp.lean"), genObsApp(repoRoot))         // C08 app layer (extract/obsapp.go): never exits
	writeIfChanged(filepath.Join(outDir, "Routing.lean"), genRouting(repoRoot))       // C01 / C11 (extract/routing.go): never exits
	writeIfChanged(filepath.Join(outDir, "ChainFacts.lean"), genChainFacts(repoRoot)) // C02 / C10 (extract/chainfacts.go): never exits
	writeIfChanged(filepath.Join(outDir, "Logging.lean"), genLogging(repoRoot))       // C20 (extract/logging.go): never exits
	writeIfChanged(filepath.Join(outDir, "ErrFmt.lean"), genErrFmt(repoRoot))         // C06 (extract/errfmt.go, extract/flatfacts.go): never exits
	writeIfChanged(filepath.Join(outDir, "Validation.lean"), genValidation(repoRoot)) // C05 (extract/validation.go): never exits
	writeIfChanged(filepath.Join(outDir, "Proxies.lean"), genProxies(repoRoot))       // C18 (extract/proxies.go): never exits
	writeIfChanged(filepath.Join(outDir, "CtxHelpers.lean"), genCtxHelpers(repoRoot)) // C19 (extract/ctxhelpers.go): never exits
	writeIfChanged(filepath.Join(outDir, "RateLimit.lean"), genRateLimit(repoRoot))   // C16 (extract/ratelimit.go): never exits
}
