#!/bin/sh
# extract/run.sh <repo-root> : regenerate lean/Rivaas/Gen/*.lean from the current source (fails closed).
set -e
here="$(cd "$(dirname "$0")" && pwd)"
repo="${1:-/repo}"
out="$here/../lean/Rivaas/Gen"
bin="$here/../build/bin/extract"
mkdir -p "$here/../build/bin" "$out"
(cd "$here" && GOFLAGS= GOPROXY=off GOWORK=off GOTOOLCHAIN=auto go build -o "$bin" .)
exec "$bin" "$repo" "$out"
