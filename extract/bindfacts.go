package main

// Gen/BindFacts.lean (C04): structural facts of binding/*.go and app/context.go that the model of request binding
// (lean/Rivaas/Model/Bind*.lean) mirrors. Syntax only. Things are located by structure - function names, callee
// names, field names of the configuration, statement shapes - never by the names of locals. Never exits: anything
// it does not find or does not understand is recorded as `problem := some "<reason>"` in the generated file and
// the Tie theorem `Rivaas.Tie.C04Bind.extraction_complete` no longer holds.
//
// A function body (or loop body, or switch arm) is rendered as the list of its top-level statements, each an `Item`:
//   guard  - the limit / overflow test the statement makes when it is an `if … { … return … }` without else:
//              "OverflowInt" / "OverflowUint" / "OverflowFloat"   (a call of that reflect method in the condition)
//              "len > .maxSliceLen", "_ > .maxMapSize", "_ > .maxDepth" …   (a comparison of a configuration limit with
//              something that is not the literal 0: "len" = len(<local>), "_" = a local; the limit always printed on
//              the right, `limit < x` as `x > limit`)
//            also when the test sits inside `if <cfg>.<limit> > 0 { …; if <test> { … return … } }` (0 = no limit);
//            "" otherwise
//   calls  - the calls of the vocabulary and the assignments to configuration fields ("=.skipDefaults") that occur
//            anywhere inside the statement, in source order; a call whose last argument is `<local> + 1` carries the
//            suffix "(+1)", the literal 0 the suffix "(0)"
// A top-level guard at position i therefore dominates every call that occurs in an item at a position > i.

import (
	"fmt"
	"go/ast"
	"go/token"
	"path/filepath"
	"strconv"
	"strings"
)

type bfErr struct{ msg string }

func bfFail(n ast.Node, format string, a ...any) {
	where := ""
	if n != nil && n.Pos().IsValid() {
		p := fset.Position(n.Pos())
		where = fmt.Sprintf("%s:%d: ", shortFile(p.Filename), p.Line)
	}
	panic(bfErr{where + fmt.Sprintf(format, a...)})
}

var bfLimits = map[string]bool{"maxDepth": true, "maxSliceLen": true, "maxMapSize": true}

var bfVocab = map[string]bool{
	"MakeSlice": true, "MakeMap": true, "MakeMapWithSize": true, "SetMapIndex": true, "New": false,
	"SetInt": true, "SetUint": true, "SetFloat": true, "SetBool": true, "SetString": true, "Set": true,
	"OverflowInt": true, "OverflowUint": true, "OverflowFloat": true,
	"setFieldValue": true, "setField": true, "setSliceField": true, "setMapField": true, "setFileField": true,
	"setNestedStructWithDepth": true, "bindFieldsWithDepth": true, "bindFromSource": true, "bindMultiSource": true,
	"convertValue": true, "convertToType": true, "findConverter": true, "parseTime": true, "parseBoolGenerous": true,
	"ParseInt": true, "ParseUint": true, "ParseFloat": true, "ParseDuration": true, "ParseIP": true, "ParseCIDR": true,
	"Compile": true, "UnmarshalText": true, "Unmarshal": true,
	"bindMapFromValues": true, "parseJSONToMap": true, "estimateMapCapacity": true, "extractMapKey": true,
	"fieldByIndex": true, "applyTypedDefault": true, "getStructInfo": true, "HasStructTag": true,
	"countValueSources": true, "isValueSource": true,
	"bindJSONBytesInternal": true, "bindJSONReaderInternal": true, "bindXMLBytesInternal": true, "bindXMLReaderInternal": true,
	"Get": true, "GetAll": true, "Has": true, "Split": true, "TrimSpace": true, "Join": true,
	"BindTo": true, "bindJSON": true, "bindForm": true, "hasJSONOrFormTag": true,
	"MultipartTo": true, "FormTo": true, "ParseMultipartForm": true, "ParseForm": true,
	"ToLower": true, "Lock": true, "Unlock": true, "Load": true, "Store": true, "parseStructInfo": true, "Copy": true,
}

var bfCfgFields = map[string]bool{"skipDefaults": true, "sources": true}

type bfItem struct {
	guard string
	calls []string
}

func bfCalleeName(c *ast.CallExpr) string {
	f := c.Fun
	if ix, ok := f.(*ast.IndexExpr); ok {
		f = ix.X
	}
	switch f := f.(type) {
	case *ast.Ident:
		return f.Name
	case *ast.SelectorExpr:
		return f.Sel.Name
	}
	return ""
}

// calls of the vocabulary + assignments to configuration fields inside n, in source order
func bfCalls(n ast.Node) []string {
	var out []string
	ast.Inspect(n, func(x ast.Node) bool {
		switch x := x.(type) {
		case *ast.DeferStmt:
			// a deferred call of the vocabulary: "defer:<name>" at the place where it is registered
			if name := bfCalleeName(x.Call); bfVocab[name] {
				out = append(out, "defer:"+name)
				return false
			}
		case *ast.AssignStmt:
			for _, l := range x.Lhs {
				if s, ok := l.(*ast.SelectorExpr); ok && bfCfgFields[s.Sel.Name] {
					out = append(out, "=."+s.Sel.Name)
				}
			}
		case *ast.CallExpr:
			name := bfCalleeName(x)
			if bfVocab[name] {
				suffix := ""
				if len(x.Args) > 0 {
					switch a := x.Args[len(x.Args)-1].(type) {
					case *ast.BinaryExpr:
						if lit, ok := a.Y.(*ast.BasicLit); ok && a.Op == token.ADD && lit.Value == "1" {
							if _, ok := a.X.(*ast.Ident); ok {
								suffix = "(+1)"
							}
						}
					case *ast.BasicLit:
						if a.Value == "0" {
							suffix = "(0)"
						}
					}
				}
				if name == "ParseInt" || name == "ParseUint" || name == "ParseFloat" {
					// the bit size (last argument) is part of the fact
					if lit, ok := x.Args[len(x.Args)-1].(*ast.BasicLit); ok {
						suffix = ":" + lit.Value
					} else {
						suffix = ":?"
					}
				}
				// ast.Inspect visits a call before its arguments: `f(g(x))` would list f first although g runs
				// first; source order of the call *sites* is what the facts are about
				out = append(out, name+suffix)
			}
		}
		return true
	})
	return out
}

func bfSide(e ast.Expr) string {
	switch e := e.(type) {
	case *ast.Ident:
		return "_"
	case *ast.CallExpr:
		if id, ok := e.Fun.(*ast.Ident); ok && id.Name == "len" && len(e.Args) == 1 {
			if _, ok := e.Args[0].(*ast.Ident); ok {
				return "len"
			}
		}
	case *ast.BinaryExpr:
		if lit, ok := e.Y.(*ast.BasicLit); ok && e.Op == token.ADD {
			if _, ok := e.X.(*ast.Ident); ok {
				return "_+" + lit.Value
			}
		}
	}
	return "?(" + src(e) + ")"
}

func bfIsLimit(e ast.Expr) (string, bool) {
	if s, ok := e.(*ast.SelectorExpr); ok && bfLimits[s.Sel.Name] {
		if _, ok := s.X.(*ast.Ident); ok {
			return s.Sel.Name, true
		}
	}
	return "", false
}

func bfIsZero(e ast.Expr) bool {
	lit, ok := e.(*ast.BasicLit)
	return ok && lit.Value == "0"
}

// the test a condition makes: (description, isPositivityOnly)
func bfTest(cond ast.Expr) (string, bool) {
	var tests []string
	positivity := false
	ast.Inspect(cond, func(x ast.Node) bool {
		switch x := x.(type) {
		case *ast.CallExpr:
			if n := bfCalleeName(x); strings.HasPrefix(n, "Overflow") {
				tests = append(tests, n)
			}
		case *ast.BinaryExpr:
			switch x.Op {
			case token.GTR, token.GEQ, token.LSS, token.LEQ:
				if f, ok := bfIsLimit(x.Y); ok {
					if bfIsZero(x.X) {
						positivity = true
					} else {
						tests = append(tests, bfSide(x.X)+" "+x.Op.String()+" ."+f)
					}
				} else if f, ok := bfIsLimit(x.X); ok {
					if bfIsZero(x.Y) {
						positivity = true
					} else {
						// the limit always on the right: `.f < x` is `x > .f`
						flip := map[token.Token]string{token.GTR: "<", token.GEQ: "<=", token.LSS: ">", token.LEQ: ">="}
						tests = append(tests, bfSide(x.Y)+" "+flip[x.Op]+" ."+f)
					}
				}
			}
		}
		return true
	})
	if len(tests) > 1 {
		bfFail(cond, "a condition with more than one limit / overflow test: %s", src(cond))
	}
	if len(tests) == 1 {
		return tests[0], false
	}
	return "", positivity
}

func bfEndsInReturn(b *ast.BlockStmt) bool {
	if len(b.List) == 0 {
		return false
	}
	_, ok := b.List[len(b.List)-1].(*ast.ReturnStmt)
	return ok
}

func bfGuard(s ast.Stmt) string {
	is, ok := s.(*ast.IfStmt)
	if !ok || is.Else != nil {
		return ""
	}
	test, positivity := bfTest(is.Cond)
	if test != "" {
		if !bfEndsInReturn(is.Body) {
			bfFail(is, "a limit / overflow test whose branch does not end in return: %s", src(is.Cond))
		}
		return test
	}
	if positivity {
		// if <cfg>.<limit> > 0 { …; if <test> { … return } }
		for _, in := range is.Body.List {
			if g := bfGuard(in); g != "" {
				return g
			}
		}
	}
	return ""
}

func bfItems(list []ast.Stmt) []bfItem {
	var out []bfItem
	for _, s := range list {
		out = append(out, bfItem{bfGuard(s), bfCalls(s)})
	}
	return out
}

// a limit / overflow test anywhere below the top level of `list` that bfItems does not report would be lost
func bfNoHiddenTests(what string, list []ast.Stmt, loopsSeparately bool) {
	for _, s := range list {
		top := bfGuard(s)
		n := 0
		ast.Inspect(s, func(x ast.Node) bool {
			switch x := x.(type) {
			case *ast.RangeStmt, *ast.ForStmt:
				if loopsSeparately {
					return false // rendered on its own
				}
			case *ast.IfStmt:
				if t, _ := bfTest(x.Cond); t != "" {
					n++
				}
				_ = x
			}
			return true
		})
		if (top == "" && n > 0) || n > 1 {
			bfFail(s, "%s: a limit / overflow test that is not a top-level guard of the rendered body", what)
		}
	}
}

func bfLeanItems(its []bfItem) string {
	var b strings.Builder
	b.WriteString("[")
	for i, it := range its {
		if i > 0 {
			b.WriteString(",")
		}
		q := make([]string, len(it.calls))
		for j, c := range it.calls {
			q[j] = leanStr(c)
		}
		fmt.Fprintf(&b, "\n  ⟨%s, [%s]⟩", leanStr(it.guard), strings.Join(q, ", "))
	}
	b.WriteString("]")
	return b.String()
}

func bfStrs(l []string) string {
	q := make([]string, len(l))
	for i, s := range l {
		q[i] = leanStr(s)
	}
	return "[" + strings.Join(q, ", ") + "]"
}

type bfGen struct {
	b       strings.Builder
	problem string
}

func (g *bfGen) guard(what string, f func()) {
	defer func() {
		if r := recover(); r != nil {
			msg := ""
			switch e := r.(type) {
			case bfErr:
				msg = e.msg
			case fatalErr:
				msg = e.msg
			case error:
				msg = e.Error() // nil dereference on an unexpected shape: fail closed as well
			default:
				msg = fmt.Sprint(r)
			}
			if g.problem == "" {
				g.problem = what + ": " + msg
			}
		}
	}()
	f()
}

func (g *bfGen) items(name, doc string, its []bfItem) {
	fmt.Fprintf(&g.b, "/-- %s -/\ndef %s : List Item := %s\n\n", doc, name, bfLeanItems(its))
}

func bfFn(p *pkg, recv, name string) *ast.FuncDecl {
	var d *ast.FuncDecl
	if recv == "" {
		d = p.funcs[name]
	} else if m := p.methods[recv]; m != nil {
		d = m[name]
	}
	if d == nil {
		bfFail(nil, "function %s.%s not found", recv, name)
	}
	return d
}

// the one loop statement at the top level of a body whose body contains a call of `callee`
func bfLoopWith(list []ast.Stmt, callee string) *ast.BlockStmt {
	var found *ast.BlockStmt
	for _, s := range list {
		var body *ast.BlockStmt
		switch s := s.(type) {
		case *ast.RangeStmt:
			body = s.Body
		case *ast.ForStmt:
			body = s.Body
		}
		if body == nil {
			continue
		}
		has := false
		for _, c := range bfCalls(body) {
			if strings.HasPrefix(c, callee) {
				has = true
			}
		}
		if has {
			if found != nil {
				bfFail(s, "two top-level loops call %s", callee)
			}
			found = body
		}
	}
	if found == nil {
		bfFail(nil, "no top-level loop calls %s", callee)
	}
	return found
}

func bfKindNames(cc *ast.CaseClause) []string {
	var ks []string
	for _, e := range cc.List {
		s, ok := e.(*ast.SelectorExpr)
		if !ok {
			if id, ok := e.(*ast.Ident); ok {
				ks = append(ks, id.Name)
				continue
			}
			bfFail(e, "case expression is not a name: %s", src(e))
		}
		ks = append(ks, s.Sel.Name)
	}
	return ks
}

func bfIsIdentByte(c byte) bool {
	return c == '_' || c >= '0' && c <= '9' || c >= 'a' && c <= 'z' || c >= 'A' && c <= 'Z'
}

// bfReplaceIdent replaces the identifier name by `by` in the source text s (whole words only)
func bfReplaceIdent(s, name, by string) string {
	var b strings.Builder
	for i := 0; i < len(s); {
		if strings.HasPrefix(s[i:], name) && (i == 0 || !bfIsIdentByte(s[i-1]) && s[i-1] != '.') &&
			(i+len(name) == len(s) || !bfIsIdentByte(s[i+len(name)])) {
			b.WriteString(by)
			i += len(name)
			continue
		}
		b.WriteByte(s[i])
		i++
	}
	return b.String()
}

func genBindFacts(repo string) string {
	g := &bfGen{}
	var binding, app *pkg
	g.guard("binding", func() { binding = parseDir(filepath.Join(repo, "binding")) })
	g.guard("app", func() { app = parseDir(filepath.Join(repo, "app")) })
	if binding == nil {
		binding = &pkg{funcs: map[string]*ast.FuncDecl{}, methods: map[string]map[string]*ast.FuncDecl{}}
	}
	if app == nil {
		app = &pkg{funcs: map[string]*ast.FuncDecl{}, methods: map[string]map[string]*ast.FuncDecl{}}
	}

	// ---- setFieldValue: the order of its stages, the special types, the arms of the final switch on the kind
	var stages, special []string
	type arm struct {
		kinds []string
		items []bfItem
	}
	var setArms []arm
	var setDefault []bfItem
	g.guard("setFieldValue", func() {
		fn := bfFn(binding, "", "setFieldValue")
		for _, s := range fn.Body.List {
			switch s := s.(type) {
			case *ast.SwitchStmt:
				tag := src(s.Tag)
				switch {
				case strings.HasSuffix(tag, ".Kind()"):
					stages = append(stages, "switch:kind")
					for _, c := range s.Body.List {
						cc := c.(*ast.CaseClause)
						if cc.List == nil {
							setDefault = bfItems(cc.Body)
							continue
						}
						bfNoHiddenTests("setFieldValue", cc.Body, false)
						setArms = append(setArms, arm{bfKindNames(cc), bfItems(cc.Body)})
					}
				default:
					if _, ok := s.Tag.(*ast.Ident); !ok {
						bfFail(s, "unexpected switch on %s", tag)
					}
					stages = append(stages, "switch:type")
					for _, c := range s.Body.List {
						cc := c.(*ast.CaseClause)
						if cc.List == nil {
							bfFail(cc, "the switch on the field type has a default arm")
						}
						special = append(special, bfKindNames(cc)...)
					}
				}
			default:
				for _, c := range bfCalls(s) {
					switch c {
					case "findConverter", "UnmarshalText", "convertValue":
						stages = append(stages, c)
					}
				}
			}
		}
	})
	fmt.Fprintf(&g.b, "/-- `setFieldValue`: its stages in source order (each stage returns when it applies) -/\ndef setFieldValue_stages : List String := %s\n\n", bfStrs(stages))
	fmt.Fprintf(&g.b, "/-- `setFieldValue`: the types of the switch on the field type, in source order -/\ndef setFieldValue_specialTypes : List String := %s\n\n", bfStrs(special))
	g.b.WriteString("/-- `setFieldValue`: the arms of the final `switch fieldType.Kind()` - the kinds of the arm and its body -/\ndef setFieldValue_arms : List (List String × List Item) := [")
	for i, a := range setArms {
		if i > 0 {
			g.b.WriteString(",")
		}
		fmt.Fprintf(&g.b, "\n (%s, %s)", bfStrs(a.kinds), bfLeanItems(a.items))
	}
	g.b.WriteString("]\n\n")
	g.items("setFieldValue_default", "`setFieldValue`: the default arm of that switch", setDefault)

	// ---- convertValue: kinds of every arm and the parser it calls
	var convArms [][2][]string
	var convDefault []bfItem
	g.guard("convertValue", func() {
		fn := bfFn(binding, "", "convertValue")
		var sw *ast.SwitchStmt
		for _, s := range fn.Body.List {
			if x, ok := s.(*ast.SwitchStmt); ok {
				if sw != nil {
					bfFail(x, "two switches")
				}
				sw = x
			}
		}
		if sw == nil {
			bfFail(fn, "no switch")
		}
		for _, c := range sw.Body.List {
			cc := c.(*ast.CaseClause)
			if cc.List == nil {
				convDefault = bfItems(cc.Body)
				continue
			}
			var calls []string
			for _, s := range cc.Body {
				calls = append(calls, bfCalls(s)...)
			}
			convArms = append(convArms, [2][]string{bfKindNames(cc), calls})
		}
	})
	g.b.WriteString("/-- `convertValue`: the kinds of every arm of its switch and the calls of the arm -/\ndef convertValue_arms : List (List String × List String) := [")
	for i, a := range convArms {
		if i > 0 {
			g.b.WriteString(",")
		}
		fmt.Fprintf(&g.b, "\n (%s, %s)", bfStrs(a[0]), bfStrs(a[1]))
	}
	g.b.WriteString("]\n\n")
	g.items("convertValue_default", "`convertValue`: the default arm", convDefault)

	// ---- bodies with limit checks
	body := func(name string, recv, fn string, loopCallee string) {
		var its []bfItem
		g.guard(fn, func() {
			d := bfFn(binding, recv, fn)
			list := d.Body.List
			if loopCallee != "" {
				list = bfLoopWith(list, loopCallee).List
			}
			bfNoHiddenTests(fn, list, loopCallee == "" && (fn == "bindFieldsWithDepth" || fn == "bindMapFromValues"))
			its = bfItems(list)
		})
		doc := "`" + fn + "`: its top-level statements"
		if loopCallee != "" {
			doc = "`" + fn + "`: the body of its loop that calls `" + loopCallee + "`"
		}
		g.items(name, doc, its)
	}
	body("setSliceField_items", "", "setSliceField", "")
	body("setMapField_items", "", "setMapField", "")
	body("bindMapFromValues_loop", "", "bindMapFromValues", "SetMapIndex")
	body("parseJSONToMap_items", "", "parseJSONToMap", "")
	body("setNestedStruct_items", "", "setNestedStructWithDepth", "")
	body("bindFieldsWithDepth_items", "", "bindFieldsWithDepth", "")
	body("bindFieldsWithDepth_loop", "", "bindFieldsWithDepth", "setNestedStructWithDepth")
	body("bindFromSource_items", "", "bindFromSource", "")
	body("bindMultiSource_items", "", "bindMultiSource", "")

	// ---- entry points: which getter goes with which tag constant
	var triples [][3]string
	g.guard("entry points", func() {
		add := func(fn string, n ast.Node) {
			// one getter constructor and one tag constant inside the same call / composite literal
			var ctor, tag []string
			ast.Inspect(n, func(x ast.Node) bool {
				switch x := x.(type) {
				case *ast.CallExpr:
					if nm := bfCalleeName(x); strings.HasPrefix(nm, "New") && strings.HasSuffix(nm, "Getter") {
						ctor = append(ctor, nm)
					}
				case *ast.Ident:
					if strings.HasPrefix(x.Name, "Tag") && len(x.Name) > 3 {
						tag = append(tag, x.Name)
					}
				}
				return true
			})
			if len(ctor) == 0 && len(tag) == 0 {
				return
			}
			if len(ctor) != 1 || len(tag) != 1 {
				bfFail(n, "%s: %d getter constructors and %d tag constants in one place", fn, len(ctor), len(tag))
			}
			triples = append(triples, [3]string{fn, ctor[0], tag[0]})
		}
		visit := func(fn string, d *ast.FuncDecl) {
			ast.Inspect(d.Body, func(x ast.Node) bool {
				switch x := x.(type) {
				case *ast.CallExpr:
					if bfCalleeName(x) == "bindFromSource" {
						add(fn, x)
						return false
					}
				case *ast.CompositeLit:
					if id, ok := x.Type.(*ast.Ident); ok && id.Name == "sourceEntry" {
						add(fn, x)
						return false
					}
				}
				return true
			})
		}
		for _, k := range []string{"Query", "Path", "Form", "Header", "Cookie"} {
			visit(k, bfFn(binding, "", k))
			visit(k+"To", bfFn(binding, "", k+"To"))
			visit("Binder."+k+"To", bfFn(binding, "Binder", k+"To"))
			visit("From"+k, bfFn(binding, "", "From"+k))
		}
	})
	g.b.WriteString("/-- entry points and `From…` options: (function, getter constructor, tag constant) of every `bindFromSource` call / `sourceEntry` literal -/\ndef entryTags : List (String × String × String) := [")
	for i, t := range triples {
		if i > 0 {
			g.b.WriteString(",")
		}
		fmt.Fprintf(&g.b, "\n  (%s, %s, %s)", leanStr(t[0]), leanStr(t[1]), leanStr(t[2]))
	}
	g.b.WriteString("]\n\n")

	// ---- the tag constants
	var consts [][2]string
	g.guard("tag constants", func() {
		for _, f := range binding.files {
			for _, d := range f.Decls {
				gd, ok := d.(*ast.GenDecl)
				if !ok || gd.Tok != token.CONST {
					continue
				}
				for _, sp := range gd.Specs {
					vs := sp.(*ast.ValueSpec)
					for i, n := range vs.Names {
						if strings.HasPrefix(n.Name, "Tag") && i < len(vs.Values) {
							if lit, ok := vs.Values[i].(*ast.BasicLit); ok && lit.Kind == token.STRING {
								v, err := strconv.Unquote(lit.Value)
								if err != nil {
									bfFail(lit, "%v", err)
								}
								consts = append(consts, [2]string{n.Name, v})
							}
						}
					}
				}
			}
		}
		if len(consts) == 0 {
			bfFail(nil, "no Tag… string constants")
		}
	})
	g.b.WriteString("/-- the `Tag…` string constants of package binding -/\ndef tagConsts : List (String × String) := [")
	for i, c := range consts {
		if i > 0 {
			g.b.WriteString(", ")
		}
		fmt.Fprintf(&g.b, "(%s, %s)", leanStr(c[0]), leanStr(c[1]))
	}
	g.b.WriteString("]\n\n")

	// ---- app.Context.bindInternal: the sources of its BindTo call, in order; what follows it
	var appSources []string
	var appItems []bfItem
	g.guard("app.Context.bindInternal", func() {
		fn := bfFn(app, "Context", "bindInternal")
		n := 0
		ast.Inspect(fn.Body, func(x ast.Node) bool {
			c, ok := x.(*ast.CallExpr)
			if !ok || bfCalleeName(c) != "BindTo" {
				return true
			}
			n++
			for _, a := range c.Args[1:] {
				ac, ok := a.(*ast.CallExpr)
				if !ok {
					bfFail(a, "an argument of BindTo that is not a call: %s", src(a))
				}
				appSources = append(appSources, bfCalleeName(ac))
			}
			return false
		})
		if n != 1 {
			bfFail(fn, "%d calls of BindTo", n)
		}
		appItems = bfItems(fn.Body.List)
	})
	// ---- literal tables: parseBoolGenerous (arms of its switch and what they return), the string literals of the
	// tag parser and of the map-key readers
	type boolArm struct {
		lits []string
		ret  string
	}
	var boolArms []boolArm
	boolDefaultErr := false
	var boolPrep []string
	g.guard("parseBoolGenerous", func() {
		fn := bfFn(binding, "", "parseBoolGenerous")
		var sw *ast.SwitchStmt
		for _, st := range fn.Body.List {
			if x, ok := st.(*ast.SwitchStmt); ok {
				if sw != nil {
					bfFail(x, "two switches")
				}
				sw = x
			} else {
				boolPrep = append(boolPrep, bfCalls(st)...)
			}
		}
		if sw == nil {
			bfFail(fn, "no switch")
		}
		for _, c := range sw.Body.List {
			cc := c.(*ast.CaseClause)
			if len(cc.Body) != 1 {
				bfFail(cc, "an arm that is not a single return")
			}
			ret, ok := cc.Body[0].(*ast.ReturnStmt)
			if !ok || len(ret.Results) != 2 {
				bfFail(cc, "an arm that is not a single return of two values")
			}
			if cc.List == nil {
				boolDefaultErr = src(ret.Results[1]) != "nil"
				continue
			}
			if src(ret.Results[1]) != "nil" {
				bfFail(ret, "a literal arm that returns an error")
			}
			var lits []string
			for _, e := range cc.List {
				lit, ok := e.(*ast.BasicLit)
				if !ok || lit.Kind != token.STRING {
					bfFail(e, "case is not a string literal")
				}
				v, _ := strconv.Unquote(lit.Value)
				lits = append(lits, v)
			}
			boolArms = append(boolArms, boolArm{lits, src(ret.Results[0])})
		}
	})
	g.b.WriteString("/-- `parseBoolGenerous`: the arms of its switch (literals, the value returned) -/\ndef parseBool_arms : List (List String × String) := [")
	for i, a := range boolArms {
		if i > 0 {
			g.b.WriteString(", ")
		}
		fmt.Fprintf(&g.b, "(%s, %s)", bfStrs(a.lits), leanStr(a.ret))
	}
	g.b.WriteString("]\n\n")
	fmt.Fprintf(&g.b, "/-- … its default arm returns an error -/\ndef parseBool_defaultIsError : Bool := %v\n\n", boolDefaultErr)
	fmt.Fprintf(&g.b, "/-- … what it does to the string before the switch -/\ndef parseBool_prep : List String := %s\n\n", bfStrs(boolPrep))
	strLits := func(name, recv, fn string) {
		var lits []string
		g.guard(fn, func() {
			d := bfFn(binding, recv, fn)
			ast.Inspect(d.Body, func(x ast.Node) bool {
				if lit, ok := x.(*ast.BasicLit); ok && lit.Kind == token.STRING {
					v, err := strconv.Unquote(lit.Value)
					if err != nil {
						bfFail(lit, "%v", err)
					}
					lits = append(lits, v)
				}
				return true
			})
		})
		fmt.Fprintf(&g.b, "/-- `%s`: its string literals in source order -/\ndef %s : List String := %s\n\n", fn, name, bfStrs(lits))
	}
	strLits("parseTag_literals", "", "parseTagWithAliases")
	strLits("extractBracketKey_literals", "", "extractBracketKey")
	strLits("prefixGetter_Has_literals", "prefixGetter", "Has")

	// ---- options: what every With… option assigns ($i = its i-th parameter); what clone() copies deeply
	var optWrites [][2]string
	var cloneDeep []string
	cloneStarts := false
	g.guard("options", func() {
		for _, f := range binding.files {
			for _, d := range f.Decls {
				fd, ok := d.(*ast.FuncDecl)
				if !ok || fd.Recv != nil || fd.Body == nil || !strings.HasPrefix(fd.Name.Name, "With") {
					continue
				}
				if fd.Type.Results == nil || len(fd.Type.Results.List) != 1 || src(fd.Type.Results.List[0].Type) != "Option" {
					continue
				}
				params := map[string]int{}
				k := 0
				for _, pf := range fd.Type.Params.List {
					for _, n := range pf.Names {
						params[n.Name] = k
						k++
					}
				}
				var lit *ast.FuncLit
				ast.Inspect(fd.Body, func(x ast.Node) bool {
					if fl, ok := x.(*ast.FuncLit); ok && lit == nil && len(fl.Type.Params.List) == 1 && src(fl.Type.Params.List[0].Type) == "*config" {
						lit = fl
						return false
					}
					return true
				})
				if lit == nil {
					// an option defined through another one: return WithX(…)
					if len(fd.Body.List) == 1 {
						if ret, ok := fd.Body.List[0].(*ast.ReturnStmt); ok && len(ret.Results) == 1 {
							if c, ok := ret.Results[0].(*ast.CallExpr); ok && strings.HasPrefix(bfCalleeName(c), "With") {
								optWrites = append(optWrites, [2]string{fd.Name.Name, "->" + src(c)})
								continue
							}
						}
					}
					bfFail(fd, "%s: no func(c *config) literal", fd.Name.Name)
				}
				recv := lit.Type.Params.List[0].Names[0].Name
				ast.Inspect(lit.Body, func(x ast.Node) bool {
					as, ok := x.(*ast.AssignStmt)
					if !ok {
						return true
					}
					for i, l := range as.Lhs {
						var sel *ast.SelectorExpr
						switch l := l.(type) {
						case *ast.SelectorExpr:
							sel = l
						case *ast.IndexExpr: // c.typeConverters[t] = …
							if s2, ok := l.X.(*ast.SelectorExpr); ok {
								sel = s2
							}
						}
						if sel == nil {
							continue
						}
						if id, ok := sel.X.(*ast.Ident); !ok || id.Name != recv {
							continue
						}
						rhs := "?"
						if i < len(as.Rhs) {
							rhs = src(as.Rhs[i])
							for name, idx := range params {
								rhs = bfReplaceIdent(rhs, name, "$"+strconv.Itoa(idx))
							}
							rhs = bfReplaceIdent(rhs, recv, "c")
						}
						optWrites = append(optWrites, [2]string{fd.Name.Name, sel.Sel.Name + "=" + rhs})
					}
					return true
				})
			}
		}
		cl := bfFn(binding, "config", "clone")
		if len(cl.Body.List) > 0 {
			if as, ok := cl.Body.List[0].(*ast.AssignStmt); ok && len(as.Rhs) == 1 {
				if st, ok := as.Rhs[0].(*ast.StarExpr); ok {
					if id, ok := st.X.(*ast.Ident); ok && id.Name == recvName(cl) {
						cloneStarts = true
					}
				}
			}
		}
		ast.Inspect(cl.Body, func(x ast.Node) bool {
			if as, ok := x.(*ast.AssignStmt); ok {
				for _, l := range as.Lhs {
					if sel, ok := l.(*ast.SelectorExpr); ok {
						dup := false
						for _, c := range cloneDeep {
							dup = dup || c == sel.Sel.Name
						}
						if !dup {
							cloneDeep = append(cloneDeep, sel.Sel.Name)
						}
					}
				}
			}
			return true
		})
	})
	g.b.WriteString("/-- every `With…` option of package binding: what its closure assigns ($i = the option's i-th parameter) -/\ndef optionWrites : List (String × String) := [")
	for i, w := range optWrites {
		if i > 0 {
			g.b.WriteString(",")
		}
		fmt.Fprintf(&g.b, "\n  (%s, %s)", leanStr(w[0]), leanStr(w[1]))
	}
	g.b.WriteString("]\n\n")
	fmt.Fprintf(&g.b, "/-- `(*config).clone` starts from a copy of the whole struct -/\ndef clone_copiesStruct : Bool := %v\n\n", cloneStarts)
	fmt.Fprintf(&g.b, "/-- … and re-assigns these fields (deep copies) -/\ndef clone_deepFields : List String := %s\n\n", bfStrs(cloneDeep))

	// ---- the struct-info cache: the key, the lock discipline around the fill
	var keyFields [][2]string
	var keyFrom, parseArgs []string
	var cacheItems []bfItem
	g.guard("getStructInfo", func() {
		st := binding.structs["cacheKey"]
		if st == nil {
			bfFail(nil, "type cacheKey not found")
		}
		for _, f := range st.Fields.List {
			for _, n := range f.Names {
				keyFields = append(keyFields, [2]string{n.Name, src(f.Type)})
			}
		}
		fn := bfFn(binding, "", "getStructInfo")
		params := map[string]int{}
		k := 0
		for _, f := range fn.Type.Params.List {
			for _, n := range f.Names {
				params[n.Name] = k
				k++
			}
		}
		paramRef := func(e ast.Expr) string {
			if id, ok := e.(*ast.Ident); ok {
				if i, ok := params[id.Name]; ok {
					return "param" + strconv.Itoa(i)
				}
			}
			return "?(" + src(e) + ")"
		}
		nlit, ncall := 0, 0
		ast.Inspect(fn.Body, func(x ast.Node) bool {
			switch x := x.(type) {
			case *ast.CompositeLit:
				if id, ok := x.Type.(*ast.Ident); ok && id.Name == "cacheKey" {
					nlit++
					for _, el := range x.Elts {
						kv, ok := el.(*ast.KeyValueExpr)
						if !ok {
							bfFail(el, "cacheKey literal without field names")
						}
						keyFrom = append(keyFrom, src(kv.Key)+"="+paramRef(kv.Value))
					}
				}
			case *ast.CallExpr:
				if bfCalleeName(x) == "parseStructInfo" {
					ncall++
					for _, a := range x.Args {
						parseArgs = append(parseArgs, paramRef(a))
					}
				}
			}
			return true
		})
		if nlit != 1 || ncall != 1 {
			bfFail(fn, "%d cacheKey literals and %d calls of parseStructInfo", nlit, ncall)
		}
		cacheItems = bfItems(fn.Body.List)
	})
	g.b.WriteString("/-- the fields of `cacheKey` (name, type) -/\ndef cacheKey_fields : List (String × String) := [")
	for i, f := range keyFields {
		if i > 0 {
			g.b.WriteString(", ")
		}
		fmt.Fprintf(&g.b, "(%s, %s)", leanStr(f[0]), leanStr(f[1]))
	}
	g.b.WriteString("]\n\n")
	fmt.Fprintf(&g.b, "/-- `getStructInfo`: what its one `cacheKey{…}` literal is built from (field=param<i>: the i-th parameter of the function) -/\ndef getStructInfo_key : List String := %s\n\n", bfStrs(keyFrom))
	fmt.Fprintf(&g.b, "/-- `getStructInfo`: the arguments of its one call of `parseStructInfo` -/\ndef getStructInfo_parseArgs : List String := %s\n\n", bfStrs(parseArgs))
	g.items("getStructInfo_items", "`getStructInfo`: its top-level statements", cacheItems)

	// ---- app.Context.bindInternal: the arms of the switch on the content type; bindForm's own test of the header
	type ctArm struct {
		lits  []string
		calls []string
	}
	var ctArms []ctArm
	var ctDefault []string
	var formPrefixes []string
	g.guard("app.Context.bindInternal content types", func() {
		fn := bfFn(app, "Context", "bindInternal")
		var sw *ast.SwitchStmt
		ast.Inspect(fn.Body, func(x ast.Node) bool {
			if s, ok := x.(*ast.SwitchStmt); ok && s.Tag != nil {
				if _, isIdent := s.Tag.(*ast.Ident); isIdent {
					if sw != nil {
						bfFail(s, "two switches on a local")
					}
					sw = s
				}
			}
			return true
		})
		if sw == nil {
			bfFail(fn, "no switch on the content type")
		}
		for _, c := range sw.Body.List {
			cc := c.(*ast.CaseClause)
			var calls []string
			for _, st := range cc.Body {
				calls = append(calls, bfCalls(st)...)
			}
			if cc.List == nil {
				ctDefault = calls
				continue
			}
			var lits []string
			for _, e := range cc.List {
				lit, ok := e.(*ast.BasicLit)
				if !ok || lit.Kind != token.STRING {
					bfFail(e, "a case of the content-type switch is not a string literal: %s", src(e))
				}
				v, err := strconv.Unquote(lit.Value)
				if err != nil {
					bfFail(lit, "%v", err)
				}
				lits = append(lits, v)
			}
			ctArms = append(ctArms, ctArm{lits, calls})
		}
		bf := bfFn(app, "Context", "bindForm")
		ast.Inspect(bf.Body, func(x ast.Node) bool {
			c, ok := x.(*ast.CallExpr)
			if !ok || bfCalleeName(c) != "HasPrefix" || len(c.Args) != 2 {
				return true
			}
			lit, ok := c.Args[1].(*ast.BasicLit)
			if !ok || lit.Kind != token.STRING {
				bfFail(c, "HasPrefix with a prefix that is not a string literal")
			}
			v, _ := strconv.Unquote(lit.Value)
			formPrefixes = append(formPrefixes, v)
			return true
		})
	})
	g.b.WriteString("/-- `app.Context.bindInternal`: the arms of the switch on the (trimmed, lowered) content type - the literals and the calls of the arm -/\ndef app_contentTypeArms : List (List String × List String) := [")
	for i, a := range ctArms {
		if i > 0 {
			g.b.WriteString(",")
		}
		fmt.Fprintf(&g.b, "\n  (%s, %s)", bfStrs(a.lits), bfStrs(a.calls))
	}
	g.b.WriteString("]\n\n")
	fmt.Fprintf(&g.b, "/-- … the calls of its default arm -/\ndef app_contentTypeDefault : List String := %s\n\n", bfStrs(ctDefault))
	fmt.Fprintf(&g.b, "/-- `app.Context.bindForm`: the prefixes it tests the raw Content-Type header for -/\ndef app_bindForm_prefixes : List String := %s\n\n", bfStrs(formPrefixes))

	fmt.Fprintf(&g.b, "/-- `app.Context.bindInternal`: the options of its `binding.BindTo` call, in order -/\ndef app_bindInternal_sources : List String := %s\n\n", bfStrs(appSources))
	g.items("app_bindInternal_items", "`app.Context.bindInternal`: its top-level statements", appItems)

	var out strings.Builder
	out.WriteString("/- GENERATED by extract/bindfacts.go from binding/*.go and app/context.go of the current working tree — do not edit, not committed. -/\n")
	out.WriteString("namespace Rivaas.Gen.BindFacts\n\n")
	out.WriteString("/-- one top-level statement of a rendered body (extract/bindfacts.go) -/\nstructure Item where\n  guard : String\n  calls : List String\n  deriving DecidableEq, Repr\n\n")
	if g.problem == "" {
		out.WriteString("/-- the extractor found and understood everything it was asked for -/\ndef problem : Option String := none\n\n")
	} else {
		out.WriteString("/-- the extractor FAILED CLOSED -/\ndef problem : Option String := some " + leanStr(g.problem) + "\n\n")
	}
	out.WriteString(g.b.String())
	out.WriteString("end Rivaas.Gen.BindFacts\n")
	return out.String()
}
