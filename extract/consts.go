package main

// Gen/Consts.lean: literals of the Go source that the hand-written models mirror, found syntactically.
// Every finder fails closed (fatalf) when the declaration / expression it expects is missing or when
// several occurrences that the models treat as one constant disagree.

import (
	"fmt"
	"go/ast"
	"go/token"
	"path/filepath"
	"sort"
	"strconv"
	"strings"
)

type pkgs struct{ cache map[string]*pkg }

func (ps *pkgs) get(rel string) *pkg {
	if p, ok := ps.cache[rel]; ok {
		return p
	}
	p := parseDir(filepath.Join(repoRoot, rel))
	ps.cache[rel] = p
	return p
}

// fn finds a function by name; recv "" = package-level function, "*" = any receiver.
func (p *pkg) fn(recv, name string) *ast.FuncDecl {
	if recv == "" {
		if d := p.funcs[name]; d != nil {
			return d
		}
		fatalf(token.NoPos, "consts: function %s not found in %s", name, shortFile(p.dir))
	}
	if recv != "*" {
		if d := p.methods[recv][name]; d != nil {
			return d
		}
		fatalf(token.NoPos, "consts: method (%s).%s not found in %s", recv, name, shortFile(p.dir))
	}
	var found *ast.FuncDecl
	for _, ms := range p.methods {
		if d := ms[name]; d != nil {
			if found != nil {
				fatalf(token.NoPos, "consts: method %s is ambiguous in %s", name, shortFile(p.dir))
			}
			found = d
		}
	}
	if found == nil {
		fatalf(token.NoPos, "consts: method %s not found in %s", name, shortFile(p.dir))
	}
	return found
}

func evalInt(e ast.Expr) (int64, bool) {
	switch v := e.(type) {
	case *ast.BasicLit:
		if v.Kind != token.INT {
			return 0, false
		}
		n, err := strconv.ParseInt(strings.ReplaceAll(v.Value, "_", ""), 0, 64)
		return n, err == nil
	case *ast.ParenExpr:
		return evalInt(v.X)
	case *ast.BinaryExpr:
		a, ok1 := evalInt(v.X)
		b, ok2 := evalInt(v.Y)
		if !ok1 || !ok2 {
			return 0, false
		}
		switch v.Op {
		case token.SHL:
			return a << uint(b), true
		case token.MUL:
			return a * b, true
		case token.ADD:
			return a + b, true
		case token.SUB:
			return a - b, true
		}
	case *ast.CallExpr: // conversions such as uint64(10)
		if len(v.Args) == 1 {
			if id, ok := v.Fun.(*ast.Ident); ok && isBuiltin(id.Name) {
				return evalInt(v.Args[0])
			}
		}
	}
	return 0, false
}

func strLit(e ast.Expr) (string, bool) {
	if b, ok := e.(*ast.BasicLit); ok && b.Kind == token.STRING {
		s, err := strconv.Unquote(b.Value)
		return s, err == nil
	}
	return "", false
}

// valueSpec finds a package-level or (inside fn) local const/var declaration.
func (p *pkg) valueSpec(name string, in *ast.FuncDecl) ast.Expr {
	var found ast.Expr
	look := func(n ast.Node) {
		ast.Inspect(n, func(m ast.Node) bool {
			if gd, ok := m.(*ast.GenDecl); ok && (gd.Tok == token.CONST || gd.Tok == token.VAR) {
				for _, sp := range gd.Specs {
					vs := sp.(*ast.ValueSpec)
					for i, id := range vs.Names {
						if id.Name == name && i < len(vs.Values) {
							found = vs.Values[i]
						}
					}
				}
			}
			_, isFn := m.(*ast.FuncDecl)
			return in != nil || !isFn || m == n
		})
	}
	if in != nil {
		look(in)
	} else {
		for _, f := range p.files {
			for _, d := range f.Decls {
				if gd, ok := d.(*ast.GenDecl); ok {
					look(gd)
				}
			}
		}
	}
	if found == nil {
		fatalf(token.NoPos, "consts: declaration of %s not found in %s", name, shortFile(p.dir))
	}
	return found
}

func (p *pkg) constInt(name string, in *ast.FuncDecl) int64 {
	e := p.valueSpec(name, in)
	n, ok := evalInt(e)
	if !ok {
		fatalf(e.Pos(), "consts: %s is not an integer literal: %s", name, src(e))
	}
	return n
}

func (p *pkg) constStr(name string, in *ast.FuncDecl) string {
	e := p.valueSpec(name, in)
	s, ok := strLit(e)
	if !ok {
		fatalf(e.Pos(), "consts: %s is not a string literal: %s", name, src(e))
	}
	return s
}

// agree returns the single value of a non-empty list of occurrences.
func agree(what string, vals []int64) int64 {
	if len(vals) == 0 {
		fatalf(token.NoPos, "consts: no occurrence of %s found", what)
	}
	for _, v := range vals {
		if v != vals[0] {
			fatalf(token.NoPos, "consts: occurrences of %s disagree: %v", what, vals)
		}
	}
	return vals[0]
}

// cmpInts: every `lhs OP <int literal>` (or literal on the left with the mirrored operator is NOT accepted) in fn.
func cmpInts(fn *ast.FuncDecl, lhs string, op token.Token) []int64 {
	var out []int64
	ast.Inspect(fn, func(n ast.Node) bool {
		if b, ok := n.(*ast.BinaryExpr); ok && b.Op == op && src(b.X) == lhs {
			if v, ok := evalInt(b.Y); ok {
				out = append(out, v)
			}
		}
		return true
	})
	return out
}

// ifLessInts: N of every `if <ident> < N { … }` in fn whose body mentions one of the names (field / method names).
func ifLessInts(fn *ast.FuncDecl, mentions ...string) []int64 {
	var out []int64
	ast.Inspect(fn, func(n ast.Node) bool {
		is, ok := n.(*ast.IfStmt)
		if !ok {
			return true
		}
		b, ok := is.Cond.(*ast.BinaryExpr)
		if !ok || b.Op != token.LSS {
			return true
		}
		if _, isID := b.X.(*ast.Ident); !isID {
			return true
		}
		v, ok := evalInt(b.Y)
		if !ok {
			return true
		}
		hit := false
		ast.Inspect(is.Body, func(m ast.Node) bool {
			if sel, ok := m.(*ast.SelectorExpr); ok {
				for _, w := range mentions {
					if sel.Sel.Name == w {
						hit = true
					}
				}
			}
			return !hit
		})
		if hit {
			out = append(out, v)
		}
		return true
	})
	return out
}

// lenFieldLess: N of every `len(<x>.field) < N` in fn.
// slotGuards looks at root and at the functions / methods of the same package that root calls, directly or through
// other such helpers: the literal
// bounds of every `if <ident> < N { … }` whose body writes one of the fields, and the number of writes
// `x.<field>[i] = …` that are NOT inside such an if.
func slotGuards(p *pkg, root *ast.FuncDecl, fields ...string) (guards []int64, unguarded int) {
	fns := []*ast.FuncDecl{root}
	seen := map[*ast.FuncDecl]bool{root: true}
	// helpers of helpers too (getRoute -> descend -> captureParam): the list grows while it is walked
	for at := 0; at < len(fns); at++ {
		ast.Inspect(fns[at], func(n ast.Node) bool {
			c, ok := n.(*ast.CallExpr)
			if !ok {
				return true
			}
			name, _ := calleeName(c)
			if name == "" {
				return true
			}
			var cands []*ast.FuncDecl
			if d := p.funcs[name]; d != nil {
				cands = append(cands, d)
			}
			var recvs []string
			for r := range p.methods {
				recvs = append(recvs, r)
			}
			sort.Strings(recvs)
			for _, r := range recvs {
				if d := p.methods[r][name]; d != nil {
					cands = append(cands, d)
				}
			}
			for _, d := range cands {
				if !seen[d] && d.Body != nil {
					seen[d] = true
					fns = append(fns, d)
				}
			}
			return true
		})
	}
	isField := func(e ast.Expr) bool {
		ix, ok := e.(*ast.IndexExpr)
		if !ok {
			return false
		}
		sel, ok := ix.X.(*ast.SelectorExpr)
		if !ok {
			return false
		}
		for _, f := range fields {
			if sel.Sel.Name == f {
				return true
			}
		}
		return false
	}
	for _, fn := range fns {
		type span struct{ lo, hi token.Pos }
		var bodies []span
		ast.Inspect(fn, func(n ast.Node) bool {
			is, ok := n.(*ast.IfStmt)
			if !ok {
				return true
			}
			b, ok := is.Cond.(*ast.BinaryExpr)
			if !ok || b.Op != token.LSS {
				return true
			}
			if _, isID := b.X.(*ast.Ident); !isID {
				return true
			}
			v, ok := evalInt(b.Y)
			if !ok {
				return true
			}
			hit := false
			ast.Inspect(is.Body, func(m ast.Node) bool {
				if as, ok := m.(*ast.AssignStmt); ok {
					for _, l := range as.Lhs {
						if isField(l) {
							hit = true
						}
					}
				}
				return !hit
			})
			if hit {
				guards = append(guards, v)
				bodies = append(bodies, span{is.Body.Pos(), is.Body.End()})
			}
			return true
		})
		ast.Inspect(fn, func(n ast.Node) bool {
			as, ok := n.(*ast.AssignStmt)
			if !ok {
				return true
			}
			for _, l := range as.Lhs {
				if !isField(l) {
					continue
				}
				in := false
				for _, sp := range bodies {
					if l.Pos() >= sp.lo && l.Pos() < sp.hi {
						in = true
					}
				}
				if !in {
					unguarded++
				}
			}
			return true
		})
	}
	return guards, unguarded
}

func lenFieldLess(fn *ast.FuncDecl, field string) []int64 {
	var out []int64
	ast.Inspect(fn, func(n ast.Node) bool {
		if b, ok := n.(*ast.BinaryExpr); ok && b.Op == token.LSS {
			if c, ok := b.X.(*ast.CallExpr); ok && isIdent(c.Fun, "len") && len(c.Args) == 1 {
				if sel, ok := c.Args[0].(*ast.SelectorExpr); ok && sel.Sel.Name == field {
					if v, ok := evalInt(b.Y); ok {
						out = append(out, v)
					}
				}
			}
		}
		return true
	})
	return out
}

// minLits: the literal second argument of every `min(x, N)` in fn.
func minLits(fn *ast.FuncDecl, callee string) []int64 { return callArgInts(fn, callee, 1, "") }

// callArgInts: integer literal at argument idx of every call `callee(...)` in fn whose other argument
// (if otherSrc != "") reads otherSrc.
func callArgInts(fn *ast.FuncDecl, callee string, idx int, otherSrc string) []int64 {
	var out []int64
	ast.Inspect(fn, func(n ast.Node) bool {
		if c, ok := n.(*ast.CallExpr); ok {
			if name, _ := calleeName(c); name == callee && idx < len(c.Args) {
				if otherSrc != "" {
					match := false
					for i, a := range c.Args {
						if i != idx && src(a) == otherSrc {
							match = true
						}
					}
					if !match {
						return true
					}
				}
				if v, ok := evalInt(c.Args[idx]); ok {
					out = append(out, v)
				}
			}
		}
		return true
	})
	return out
}

func arrayLenOf(t ast.Expr, what string) int64 {
	at, ok := t.(*ast.ArrayType)
	if !ok || at.Len == nil {
		fatalf(t.Pos(), "consts: %s is not a fixed-size array", what)
	}
	n, ok := evalInt(at.Len)
	if !ok {
		fatalf(t.Pos(), "consts: length of %s is not a literal", what)
	}
	return n
}

func (p *pkg) fieldArrayLen(st, field string) int64 {
	if p.structs[st] == nil {
		fatalf(token.NoPos, "consts: struct %s not found in %s", st, shortFile(p.dir))
	}
	t := fieldType(p, st, field)
	if t == nil {
		fatalf(token.NoPos, "consts: field %s.%s not found", st, field)
	}
	return arrayLenOf(t, st+"."+field)
}

func localArrayLen(fn *ast.FuncDecl, name string) int64 {
	var t ast.Expr
	ast.Inspect(fn, func(n ast.Node) bool {
		if vs, ok := n.(*ast.ValueSpec); ok {
			for _, id := range vs.Names {
				if id.Name == name && vs.Type != nil {
					t = vs.Type
				}
			}
		}
		return true
	})
	if t == nil {
		fatalf(fn.Pos(), "consts: local array %s not found in %s", name, fn.Name.Name)
	}
	return arrayLenOf(t, name)
}

var httpMethods = map[string]string{"MethodGet": "GET", "MethodPost": "POST", "MethodPut": "PUT", "MethodPatch": "PATCH",
	"MethodDelete": "DELETE", "MethodHead": "HEAD", "MethodOptions": "OPTIONS", "MethodConnect": "CONNECT", "MethodTrace": "TRACE"}

// stringElems: elements of a []string composite literal (string literals or http.MethodX).
func stringElems(cl *ast.CompositeLit) []string {
	var out []string
	for _, e := range cl.Elts {
		if s, ok := strLit(e); ok {
			out = append(out, s)
			continue
		}
		if sel, ok := e.(*ast.SelectorExpr); ok && isIdent(sel.X, "http") {
			if m, ok := httpMethods[sel.Sel.Name]; ok {
				out = append(out, m)
				continue
			}
		}
		fatalf(e.Pos(), "consts: unhandled element %s in a string list", src(e))
	}
	return out
}

// localStringList: `name := []string{…}` / `var name = []string{…}` inside fn.
func localStringList(fn *ast.FuncDecl, name string) []string {
	var cl *ast.CompositeLit
	ast.Inspect(fn, func(n ast.Node) bool {
		switch v := n.(type) {
		case *ast.AssignStmt:
			for i, l := range v.Lhs {
				if isIdent(l, name) && i < len(v.Rhs) {
					if c, ok := v.Rhs[i].(*ast.CompositeLit); ok {
						cl = c
					}
				}
			}
		case *ast.ValueSpec:
			for i, id := range v.Names {
				if id.Name == name && i < len(v.Values) {
					if c, ok := v.Values[i].(*ast.CompositeLit); ok {
						cl = c
					}
				}
			}
		}
		return true
	})
	if cl == nil {
		fatalf(fn.Pos(), "consts: string list %s not found in %s", name, fn.Name.Name)
	}
	return stringElems(cl)
}

// assignedStrings: string literals assigned (= or :=) to an expression that reads lhs, anywhere in the nodes.
func assignedStrings(nodes []ast.Node, lhs string) []string {
	var out []string
	for _, nd := range nodes {
		ast.Inspect(nd, func(n ast.Node) bool {
			if as, ok := n.(*ast.AssignStmt); ok {
				for i, l := range as.Lhs {
					if src(l) == lhs && i < len(as.Rhs) {
						if s, ok := strLit(as.Rhs[i]); ok {
							out = append(out, s)
						}
					}
				}
			}
			return true
		})
	}
	return out
}

func sameStrings(what string, vals []string) string {
	if len(vals) == 0 {
		fatalf(token.NoPos, "consts: no occurrence of %s found", what)
	}
	for _, v := range vals {
		if v != vals[0] {
			fatalf(token.NoPos, "consts: occurrences of %s disagree: %q", what, vals)
		}
	}
	return vals[0]
}

// fieldStringLit: the string literal of `field: "…"` in composite literals inside fn.
func fieldStringLit(fn *ast.FuncDecl, field string) string {
	var out []string
	ast.Inspect(fn, func(n ast.Node) bool {
		if kv, ok := n.(*ast.KeyValueExpr); ok && isIdent(kv.Key, field) {
			if s, ok := strLit(kv.Value); ok {
				out = append(out, s)
			}
		}
		return true
	})
	return sameStrings(fn.Name.Name+"."+field, out)
}

type constOut struct {
	lines    []string
	problems [][2]string // constants whose finder failed closed: (name, reason)
}

func (o *constOut) nat(name string, v int64, from string) {
	if v < 0 {
		fatalf(token.NoPos, "consts: %s is negative", name)
	}
	o.lines = append(o.lines, fmt.Sprintf("/-- %s -/\ndef %s : Nat := %d\n", from, name, v))
}

func (o *constOut) str(name, v, from string) {
	o.lines = append(o.lines, fmt.Sprintf("/-- %s -/\ndef %s : String := %s\n", from, name, leanStr(v)))
}

func (o *constOut) strs(name string, v []string, from string) {
	var q []string
	for _, s := range v {
		q = append(q, leanStr(s))
	}
	o.lines = append(o.lines, fmt.Sprintf("/-- %s -/\ndef %s : List String := [%s]\n", from, name, strings.Join(q, ", ")))
}

// constProblems: sections of genConsts that failed closed (written to Gen/PROBLEMS.txt by main)
var constProblems []string

// cdecl declares a constant a section of genConsts is going to emit.
type cdecl struct{ name, typ string }

// problemNat is the value of a numeric constant whose finder failed: no model constant has it, so exactly the Tie
// theorems that mention the constant stop checking (and the properties that do not use it are not affected).
const problemNat = 4000000007

// section runs one group of finders. If one of them fails closed (fatalf), the constants the section declares are
// emitted with impossible values that carry the reason, instead of taking every other constant down with them.
func (o *constOut) section(decls []cdecl, body func()) {
	start := len(o.lines)
	defer func() {
		if r := recover(); r != nil {
			fe, ok := r.(fatalErr)
			if !ok {
				panic(r)
			}
			o.lines = o.lines[:start]
			msg := "EXTRACT-PROBLEM (failing closed): " + fe.msg
			for _, d := range decls {
				var v string
				switch d.typ {
				case "Nat":
					v = fmt.Sprint(problemNat)
				case "String":
					v = leanStr(msg)
				case "List String":
					v = "[" + leanStr(msg) + "]"
				case "List Nat":
					v = fmt.Sprintf("[%d]", problemNat)
				case "List (Nat × Nat)":
					v = fmt.Sprintf("[(%d, 0)]", problemNat)
				default:
					panic("consts: unknown constant type " + d.typ)
				}
				o.lines = append(o.lines, fmt.Sprintf("/-- %s -/\ndef %s : %s := %s\n", msg, d.name, d.typ, v))
				o.problems = append(o.problems, [2]string{d.name, fe.msg})
			}
			constProblems = append(constProblems, fmt.Sprintf("Consts.lean %v: %s", declNames(decls), fe.msg))
			return
		}
		// the section must have emitted exactly what it declared
		got := strings.Join(o.lines[start:], "\n")
		for _, d := range decls {
			if !strings.Contains(got, "def "+d.name+" : "+d.typ+" :=") {
				panic("consts: section did not emit " + d.name + " : " + d.typ)
			}
		}
	}()
	body()
}

func declNames(ds []cdecl) []string {
	var out []string
	for _, d := range ds {
		out = append(out, d.name)
	}
	return out
}

func nat1(n string) []cdecl  { return []cdecl{{n, "Nat"}} }
func str1(n string) []cdecl  { return []cdecl{{n, "String"}} }
func strs1(n string) []cdecl { return []cdecl{{n, "List String"}} }

func genConsts() string {
	ps := &pkgs{cache: map[string]*pkg{}}
	o := &constOut{}
	router := ps.get("router")
	compiler := ps.get("router/compiler")
	version := ps.get("router/version")

	// ---- router: parameter slots (found by structure, not by the names of locals)
	o.section(nat1("router_inlineSlots"), func() {
		slots := []int64{router.fieldArrayLen("Context", "paramKeys"), router.fieldArrayLen("Context", "paramValues")}
		n0 := len(slots)
		// every slot write of (*node).getRoute — and of the same-package helpers it calls directly, so that moving the
		// capture block into a helper keeps the fact — sits inside an `if i < N { … }`; all the N agree
		guards, unguarded := slotGuards(router, router.fn("node", "getRoute"), "paramKeys", "paramValues")
		if len(guards) == 0 || unguarded > 0 {
			fatalf(token.NoPos, "consts: slot writes of (*node).getRoute (and its direct helpers): %d guarded by `if i < N`, %d unguarded", len(guards), unguarded)
		}
		slots = append(slots, guards...)
		n0 = len(slots)
		slots = append(slots, ifLessInts(router.fn("Context", "SetParam"), "paramKeys", "paramValues")...)
		slots = append(slots, minLits(router.fn("Context", "reset"), "min")...)
		mae := compiler.fn("CompiledRoute", "matchAndExtract")
		slots = append(slots, ifLessInts(mae, "SetParam")...)
		slots = append(slots, minLits(mae, "min")...)
		if len(slots)-n0 != 4 {
			fatalf(token.NoPos, "consts: expected the inline slot count once each in SetParam, reset, and twice in matchAndExtract, found %d", len(slots)-n0)
		}
		o.nat("router_inlineSlots", agree("the number of inline parameter slots", slots),
			"len(Context.paramKeys/paramValues), `i < N` guarding the slot writes in (*node).getRoute, SetParam and matchAndExtract, `min(_, N)` in reset and matchAndExtract")
	})

	// ---- route compiler
	o.section(nat1("compiler_minRoutesForIndexing"), func() {
		o.nat("compiler_minRoutesForIndexing", compiler.constInt("minRoutesForIndexing", nil), "router/compiler: const minRoutesForIndexing")
	})
	o.section(nat1("compiler_staticDirectThreshold"), func() {
		o.nat("compiler_staticDirectThreshold", agree("len(_.staticRoutes) < N", lenFieldLess(compiler.fn("RouteCompiler", "LookupStatic"), "staticRoutes")),
			"`len(rc.staticRoutes) < N` in LookupStatic: below it the bloom filter is skipped")
	})
	o.section(nat1("router_tableDirectThreshold"), func() {
		tbl := append(lenFieldLess(router.fn("CompiledRouteTable", "getRoute"), "routes"), lenFieldLess(router.fn("CompiledRouteTable", "getRouteWithPath"), "routes")...)
		if len(tbl) != 2 {
			fatalf(token.NoPos, "consts: expected `len(table.routes) < N` once in getRoute and once in getRouteWithPath")
		}
		o.nat("router_tableDirectThreshold", agree("len(table.routes) < N", tbl), "`len(table.routes) < N` in (*CompiledRouteTable).getRoute and getRouteWithPath")
	})
	// the unique fixed-size local array of matchAndExtract and the literal bound of the loop that fills it
	o.section(nat1("compiler_maxSegments"), func() {
		mae := compiler.fn("CompiledRoute", "matchAndExtract")
		var arrs []int64
		ast.Inspect(mae, func(n ast.Node) bool {
			if vs, ok := n.(*ast.ValueSpec); ok && vs.Type != nil {
				if at, ok := vs.Type.(*ast.ArrayType); ok && at.Len != nil {
					if v, ok := evalInt(at.Len); ok {
						arrs = append(arrs, v)
					}
				}
			}
			return true
		})
		if len(arrs) != 1 {
			fatalf(mae.Pos(), "consts: expected exactly one fixed-size local array in matchAndExtract")
		}
		segs := arrs
		ast.Inspect(mae, func(n ast.Node) bool {
			if fs, ok := n.(*ast.ForStmt); ok && fs.Cond != nil {
				ast.Inspect(fs.Cond, func(m ast.Node) bool {
					if b, ok := m.(*ast.BinaryExpr); ok && b.Op == token.LSS {
						if v, ok := evalInt(b.Y); ok {
							segs = append(segs, v)
						}
					}
					return true
				})
			}
			return true
		})
		if len(segs) < 2 {
			fatalf(token.NoPos, "consts: literal loop bound of the segment buffer not found in matchAndExtract")
		}
		o.nat("compiler_maxSegments", agree("the segment buffer size", segs), "the `[N]string` segment buffer and the literal bound of the loop that fills it in matchAndExtract")
	})
	o.section(nat1("router_defaultBloomFilterSize"), func() {
		o.nat("router_defaultBloomFilterSize", router.constInt("defaultBloomFilterSize", nil), "router: const defaultBloomFilterSize")
	})
	o.section(nat1("router_defaultBloomHashFunctions"), func() {
		o.nat("router_defaultBloomHashFunctions", router.constInt("defaultBloomHashFunctions", nil), "router: const defaultBloomHashFunctions")
	})
	o.section([]cdecl{{"router_bloomBitsPerRoute", "Nat"}, {"router_bloomMinSize", "Nat"}, {"router_bloomMaxSize", "Nat"}}, func() {
		ob := router.fn("", "optimalBloomFilterSize")
		var factor, lows, highs, rets []int64
		ast.Inspect(ob, func(n ast.Node) bool {
			switch v := n.(type) {
			case *ast.BinaryExpr:
				if x, ok := evalInt(v.Y); ok {
					switch v.Op {
					case token.MUL:
						factor = append(factor, x)
					case token.LSS:
						lows = append(lows, x)
					case token.GTR:
						highs = append(highs, x)
					}
				}
			case *ast.ReturnStmt:
				if len(v.Results) == 1 {
					if x, ok := evalInt(v.Results[0]); ok {
						rets = append(rets, x)
					}
				}
			}
			return true
		})
		if len(factor) != 1 || len(lows) != 1 || len(highs) != 1 || len(rets) != 2 || rets[0] != lows[0] || rets[1] != highs[0] {
			fatalf(ob.Pos(), "consts: optimalBloomFilterSize is not `x*N; if x < LO {return LO}; if x > HI {return HI}` any more (%v %v %v %v)", factor, lows, highs, rets)
		}
		o.nat("router_bloomBitsPerRoute", factor[0], "`routeCount * N` in optimalBloomFilterSize")
		o.nat("router_bloomMinSize", lows[0], "lower clamp of optimalBloomFilterSize")
		o.nat("router_bloomMaxSize", highs[0], "upper clamp of optimalBloomFilterSize")
	})
	o.section(nat1("router_tableBloomMinSize"), func() {
		o.nat("router_tableBloomMinSize", agree("max(_, N)", minLits(router.fn("node", "compileStaticRoutes"), "max")),
			"`max(bloomFilterSize, N)` in (*node).compileStaticRoutes")
	})

	// ---- router: methods probed for 405, default wildcard name, sentinels
	o.section(strs1("router_standardMethods"), func() {
		var methodLists [][]string
		ast.Inspect(router.fn("Router", "getAllowedMethodsForPath"), func(n ast.Node) bool {
			if cl, ok := n.(*ast.CompositeLit); ok {
				if at, ok := cl.Type.(*ast.ArrayType); ok && at.Len == nil && isIdent(at.Elt, "string") {
					methodLists = append(methodLists, stringElems(cl))
				}
			}
			return true
		})
		if len(methodLists) != 1 {
			fatalf(token.NoPos, "consts: expected exactly one []string literal (the probed methods) in getAllowedMethodsForPath")
		}
		o.strs("router_standardMethods", methodLists[0], "the []string literal of getAllowedMethodsForPath, in probe order")
	})
	o.section(str1("router_wildcardParam"), func() {
		// default wildcard parameter name: `if x == "" { x = "…" }` in getRoute, and the literal bound to the identifier that
		// fills the `paramName:` field of the wildcard literal in addRouteWithConstraints
		var wn []string
		ast.Inspect(router.fn("node", "getRoute"), func(n ast.Node) bool {
			if is, ok := n.(*ast.IfStmt); ok && len(is.Body.List) == 1 {
				if b, ok := is.Cond.(*ast.BinaryExpr); ok && b.Op == token.EQL {
					if e, ok := strLit(b.Y); ok && e == "" {
						if as, ok := is.Body.List[0].(*ast.AssignStmt); ok && len(as.Lhs) == 1 && len(as.Rhs) == 1 && src(as.Lhs[0]) == src(b.X) {
							if v, ok := strLit(as.Rhs[0]); ok {
								wn = append(wn, v)
							}
						}
					}
				}
			}
			return true
		})
		addRoute := router.fn("node", "addRouteWithConstraints")
		var fillers []string
		ast.Inspect(addRoute, func(n ast.Node) bool {
			if kv, ok := n.(*ast.KeyValueExpr); ok && isIdent(kv.Key, "paramName") {
				if v, ok := strLit(kv.Value); ok {
					wn = append(wn, v)
				} else if id, ok := kv.Value.(*ast.Ident); ok {
					fillers = append(fillers, id.Name)
				}
			}
			return true
		})
		for _, f := range fillers {
			wn = append(wn, assignedStrings([]ast.Node{addRoute}, f)...)
		}
		if len(wn) < 2 {
			fatalf(token.NoPos, "consts: default wildcard parameter name expected in addRouteWithConstraints and getRoute")
		}
		o.str("router_wildcardParam", sameStrings("the default wildcard parameter name", wn), "default of the wildcard's paramName in addRouteWithConstraints and getRoute")
	})
	o.section(strs1("router_sentinelPatterns"), func() {
		var serveFns []ast.Node
		for _, n := range []string{"ServeHTTP", "serveVersionedRequest", "handleNotFound", "handleMethodNotAllowed"} {
			serveFns = append(serveFns, router.fn("Router", n))
		}
		var pats []string
		for _, nd := range serveFns {
			ast.Inspect(nd, func(n ast.Node) bool {
				if as, ok := n.(*ast.AssignStmt); ok {
					for i, l := range as.Lhs {
						if sel, ok := l.(*ast.SelectorExpr); ok && sel.Sel.Name == "routePattern" && i < len(as.Rhs) {
							if v, ok := strLit(as.Rhs[i]); ok {
								pats = append(pats, v)
							}
						}
					}
				}
				return true
			})
		}
		set := map[string]bool{}
		for _, s := range pats {
			set[s] = true
		}
		var sent []string
		for s := range set {
			sent = append(sent, s)
		}
		sort.Strings(sent)
		o.strs("router_sentinelPatterns", sent, "string literals assigned to c.routePattern in ServeHTTP, serveVersionedRequest, handleNotFound, handleMethodNotAllowed (sorted)")
	})
	o.section(str1("router_notFoundLabel"), func() {
		var endLabels []string
		ast.Inspect(router.fn("Router", "handleNotFoundWithObs"), func(n ast.Node) bool {
			if c, ok := n.(*ast.CallExpr); ok {
				if name, _ := calleeName(c); name == "OnRequestEnd" && len(c.Args) == 4 {
					if s, ok := strLit(c.Args[3]); ok {
						endLabels = append(endLabels, s)
					}
				}
			}
			return true
		})
		o.str("router_notFoundLabel", sameStrings("the label of handleNotFoundWithObs", endLabels), "label literal of OnRequestEnd in handleNotFoundWithObs")
	})

	// ---- router/accept.go
	o.section(nat1("accept_arenaSpecs"), func() {
		o.nat("accept_arenaSpecs", router.fieldArrayLen("headerArena", "specs"), "len(headerArena.specs)")
	})

	// ---- router/version
	o.section(str1("version_placeholder"), func() {
		var ph []string
		ast.Inspect(version.fn("", "newPathDetector"), func(n ast.Node) bool {
			if c, ok := n.(*ast.CallExpr); ok {
				if name, _ := calleeName(c); name == "Index" && len(c.Args) == 2 {
					if s, ok := strLit(c.Args[1]); ok {
						ph = append(ph, s)
					}
				}
			}
			return true
		})
		o.str("version_placeholder", sameStrings("the version placeholder", ph), "`strings.Index(pattern, \"…\")` in newPathDetector")
	})

	// ---- logging: sensitive keys and the redaction marker
	o.section([]cdecl{{"logging_sensitiveKeys", "List String"}, {"logging_redactedValue", "String"}}, func() {
		logging := ps.get("logging")
		var keys []string
		var marker []string
		ast.Inspect(logging.fn("Logger", "buildReplaceAttr"), func(n ast.Node) bool {
			cc, ok := n.(*ast.CaseClause)
			if !ok {
				return true
			}
			for _, st := range cc.Body {
				if r, ok := st.(*ast.ReturnStmt); ok && len(r.Results) == 1 {
					if c, ok := r.Results[0].(*ast.CallExpr); ok {
						if name, _ := calleeName(c); name == "String" && len(c.Args) == 2 {
							if m, ok := strLit(c.Args[1]); ok {
								marker = append(marker, m)
								for _, e := range cc.List {
									s, ok := strLit(e)
									if !ok {
										fatalf(e.Pos(), "consts: non-literal case in buildReplaceAttr")
									}
									keys = append(keys, s)
								}
							}
						}
					}
				}
			}
			return true
		})
		if len(keys) == 0 {
			fatalf(token.NoPos, "consts: the redacting case clause of buildReplaceAttr was not found")
		}
		o.strs("logging_sensitiveKeys", keys, "case list of the redacting clause in (*Logger).buildReplaceAttr")
		o.str("logging_redactedValue", sameStrings("the redaction marker", marker), "value the redacting clause returns")
	})

	// ---- errors: reserved members of ProblemDetail.MarshalJSON and the three media types
	o.section([]cdecl{{"errors_reservedMembers", "List String"}, {"errors_writtenMembers", "List String"}, {"errors_structMembers", "List String"}}, func() {
		errs := ps.get("errors")
		mj := errs.fn("ProblemDetail", "MarshalJSON")
		var reserved []string
		ast.Inspect(mj, func(n ast.Node) bool {
			if b, ok := n.(*ast.BinaryExpr); ok && b.Op == token.NEQ {
				if _, isID := b.X.(*ast.Ident); !isID {
					return true
				}
				if s, ok := strLit(b.Y); ok {
					reserved = append(reserved, s)
				}
			}
			return true
		})
		// the members MarshalJSON itself writes: keys of the map literal and of `m["…"] = …`
		var written []string
		ast.Inspect(mj, func(n ast.Node) bool {
			switch v := n.(type) {
			case *ast.KeyValueExpr:
				if s, ok := strLit(v.Key); ok {
					written = append(written, s)
				}
			case *ast.AssignStmt:
				for _, l := range v.Lhs {
					if ix, ok := l.(*ast.IndexExpr); ok {
						if s, ok := strLit(ix.Index); ok {
							written = append(written, s)
						}
					}
				}
			}
			return true
		})
		if len(reserved) == 0 || len(written) == 0 {
			fatalf(mj.Pos(), "consts: reserved-member guard or member writes of ProblemDetail.MarshalJSON not found")
		}
		o.strs("errors_reservedMembers", reserved, "the `k != \"…\"` chain that protects reserved members in ProblemDetail.MarshalJSON")
		o.strs("errors_writtenMembers", written, "members ProblemDetail.MarshalJSON writes itself (map literal keys, then `m[\"…\"] =`)")
		// json member names of the struct fields (a member added to the struct must also be protected)
		var members []string
		if errs.structs["ProblemDetail"] == nil {
			fatalf(token.NoPos, "consts: struct ProblemDetail not found")
		}
		for _, f := range errs.structs["ProblemDetail"].Fields.List {
			if f.Tag == nil {
				fatalf(f.Pos(), "consts: ProblemDetail field without a json tag")
			}
			tag, _ := strconv.Unquote(f.Tag.Value)
			i := strings.Index(tag, `json:"`)
			if i < 0 {
				fatalf(f.Pos(), "consts: ProblemDetail field without a json tag")
			}
			name := tag[i+6:]
			name = name[:strings.IndexByte(name, '"')]
			name, _, _ = strings.Cut(name, ",")
			if name != "-" {
				members = append(members, name)
			}
		}
		o.strs("errors_structMembers", members, "json member names of the fields of ProblemDetail (without `json:\"-\"`)")
	})
	o.section(str1("errors_ctRFC9457"), func() {
		o.str("errors_ctRFC9457", fieldStringLit(ps.get("errors").fn("RFC9457", "Format"), "ContentType"), "ContentType of (*RFC9457).Format")
	})
	o.section(str1("errors_ctJSONAPI"), func() {
		o.str("errors_ctJSONAPI", fieldStringLit(ps.get("errors").fn("JSONAPI", "Format"), "ContentType"), "ContentType of (*JSONAPI).Format")
	})
	o.section(str1("errors_ctSimple"), func() {
		o.str("errors_ctSimple", fieldStringLit(ps.get("errors").fn("Simple", "Format"), "ContentType"), "ContentType of (*Simple).Format")
	})

	// ---- validation, binding, middleware
	o.section(nat1("validation_maxRecursionDepth"), func() {
		o.nat("validation_maxRecursionDepth", ps.get("validation").constInt("maxRecursionDepth", nil), "validation: const maxRecursionDepth")
	})
	o.section(nat1("binding_defaultMaxDepth"), func() {
		o.nat("binding_defaultMaxDepth", ps.get("binding").constInt("DefaultMaxDepth", nil), "binding: const DefaultMaxDepth")
	})
	o.section(nat1("binding_defaultMaxMapSize"), func() {
		o.nat("binding_defaultMaxMapSize", ps.get("binding").constInt("DefaultMaxMapSize", nil), "binding: const DefaultMaxMapSize")
	})
	o.section(nat1("binding_defaultMaxSliceLen"), func() {
		o.nat("binding_defaultMaxSliceLen", ps.get("binding").constInt("DefaultMaxSliceLen", nil), "binding: const DefaultMaxSliceLen")
	})
	o.section(nat1("compression_sniffLen"), func() {
		o.nat("compression_sniffLen", ps.get("middleware/compression").constInt("sniffLen", nil), "middleware/compression: const sniffLen")
	})
	o.section(nat1("bodylimit_maxEmptyReads"), func() {
		o.nat("bodylimit_maxEmptyReads", ps.get("middleware/bodylimit").constInt("maxEmptyReads", nil), "middleware/bodylimit: const maxEmptyReads")
	})
	o.section(str1("basicauth_prefix"), func() {
		ba := ps.get("middleware/basicauth")
		baNew := ba.fn("", "New")
		var pref []string
		ast.Inspect(baNew, func(n ast.Node) bool {
			if c, ok := n.(*ast.CallExpr); ok {
				if name, _ := calleeName(c); name == "HasPrefix" && len(c.Args) == 2 {
					if v, ok := strLit(c.Args[1]); ok {
						pref = append(pref, v)
					} else if id, ok := c.Args[1].(*ast.Ident); ok {
						pref = append(pref, ba.constStr(id.Name, baNew))
					}
				}
			}
			return true
		})
		o.str("basicauth_prefix", sameStrings("the Authorization scheme prefix", pref), "what strings.HasPrefix tests the Authorization header against in basicauth.New")
	})

	// ---- openapi: response-code pattern and the component-name character class
	o.section(str1("openapi_responseCodePattern"), func() {
		validate := ps.get("openapi/validate")
		pe := validate.valueSpec("validResponseCodePattern", nil)
		pc, ok := pe.(*ast.CallExpr)
		if !ok || len(pc.Args) != 1 {
			fatalf(pe.Pos(), "consts: validResponseCodePattern is not regexp.MustCompile(<literal>)")
		}
		pat, ok := strLit(pc.Args[0])
		if !ok {
			fatalf(pe.Pos(), "consts: validResponseCodePattern is not regexp.MustCompile(<literal>)")
		}
		o.str("openapi_responseCodePattern", pat, "source of validResponseCodePattern")
	})
	o.section([]cdecl{{"openapi_nameRanges", "List (Nat × Nat)"}, {"openapi_nameSingles", "List Nat"}, {"openapi_nameReplacement", "Nat"}}, func() {
		sc := ps.get("openapi/internal/schema").fn("", "sanitizeComponentName")
		charOf := func(e ast.Expr) (int64, bool) {
			if b, ok := e.(*ast.BasicLit); ok && b.Kind == token.CHAR {
				r, _, _, err := strconv.UnquoteChar(b.Value[1:len(b.Value)-1], '\'')
				return int64(r), err == nil
			}
			return 0, false
		}
		var ranges, singles []string
		var repl []int64
		ast.Inspect(sc, func(n ast.Node) bool {
			switch v := n.(type) {
			case *ast.CaseClause:
				for _, e := range v.List {
					b, ok := e.(*ast.BinaryExpr)
					if !ok {
						fatalf(e.Pos(), "consts: unhandled case expression in sanitizeComponentName")
					}
					if b.Op == token.LAND {
						l, okL := b.X.(*ast.BinaryExpr)
						r, okR := b.Y.(*ast.BinaryExpr)
						if !okL || !okR || l.Op != token.GEQ || r.Op != token.LEQ {
							fatalf(e.Pos(), "consts: unhandled range test %s", src(e))
						}
						lo, ok1 := charOf(l.Y)
						hi, ok2 := charOf(r.Y)
						if !ok1 || !ok2 {
							fatalf(e.Pos(), "consts: unhandled range test %s", src(e))
						}
						ranges = append(ranges, fmt.Sprintf("(%d, %d)", lo, hi))
					} else if b.Op == token.EQL {
						c, ok := charOf(b.Y)
						if !ok {
							fatalf(e.Pos(), "consts: unhandled character test %s", src(e))
						}
						singles = append(singles, fmt.Sprint(c))
					} else {
						fatalf(e.Pos(), "consts: unhandled case expression %s", src(e))
					}
				}
			case *ast.AssignStmt:
				if len(v.Lhs) == 1 && len(v.Rhs) == 1 {
					if _, isIx := v.Lhs[0].(*ast.IndexExpr); isIx {
						if c, ok := charOf(v.Rhs[0]); ok {
							repl = append(repl, c)
						}
					}
				}
			}
			return true
		})
		if len(ranges) == 0 || len(repl) != 1 {
			fatalf(sc.Pos(), "consts: character class of sanitizeComponentName not recognised")
		}
		o.lines = append(o.lines, fmt.Sprintf("/-- byte ranges sanitizeComponentName keeps -/\ndef openapi_nameRanges : List (Nat × Nat) := [%s]\n", strings.Join(ranges, ", ")))
		o.lines = append(o.lines, fmt.Sprintf("/-- single bytes sanitizeComponentName keeps -/\ndef openapi_nameSingles : List Nat := [%s]\n", strings.Join(singles, ", ")))
		o.nat("openapi_nameReplacement", repl[0], "the byte every other byte is replaced with")
	})
	// constants whose finder failed closed (empty when everything was found): the Tie theorems that mention one of
	// them stop checking, the others are not affected
	{
		var q []string
		for _, pr := range o.problems {
			q = append(q, fmt.Sprintf("(%s, %s)", leanStr(pr[0]), leanStr(pr[1])))
		}
		o.lines = append(o.lines, fmt.Sprintf("/-- constants whose finder failed closed on the current source -/\ndef problems : List (String × String) := [%s]\n", strings.Join(q, ", ")))
	}

	var b strings.Builder
	b.WriteString("/- GENERATED by extract/ from the current working tree — do not edit, not committed.\n   Literals of the Go source that the hand-written models mirror (Tie/Consts*.lean prove `Model.x = Gen.x`). -/\n")
	b.WriteString("namespace Rivaas.Gen.Consts\n\n")
	for _, l := range o.lines {
		b.WriteString(l + "\n")
	}
	b.WriteString("end Rivaas.Gen.Consts\n")
	return b.String()
}
