// extract/obsapp.go — Gen/ObsApp.lean (C08, app layer): control-flow skeletons and argument provenance of the
// recorder implementations on top of the router's callbacks:
//
//	app/observability.go   (*observabilityRecorder).OnRequestStart / WrapResponseWriter / OnRequestEnd
//	metrics/recording.go   (*Recorder).BeginRequest / Finish
//	metrics/middleware.go  Middleware (the request closure)
//	tracing/middleware.go  Middleware (the request closure)
//	tracing/tracing.go     (*Tracer).StartSpan / FinishSpan / FinishRequestSpan
//
// Events are calls recognised by the NAME of the callee / the field path they go through (never by the names of
// locals); every `if` / `switch` clause / `select` clause gets a fresh atom and its condition is printed in a
// canonical form (locals and the receiver `_`, parameters `#i`). Fails closed (fatalf -> exit 3) on loops, function
// literals, go statements or conditions that contain a recognised event, and on labelled control flow.
package main

import (
	"fmt"
	"go/ast"
	"go/token"
	"path/filepath"
	"sort"
	"strings"
)

type oaWalker struct {
	name    string
	recv    string // receiver name of the analysed function ("" for closures / plain functions)
	params  map[string]int
	locals  map[string]bool
	atoms   *int
	conds   *[]string // canonical condition per atom
	ops     *table
	retOp   func(w *oaWalker, results []ast.Expr) string
	assigns map[string][]string // op -> field names its results are assigned to
	notes   map[string][]string // free-form facts: op -> canonical argument descriptions
}

// oaClassify maps a call to an op name ("" = not an event).
func oaClassify(w *oaWalker, c *ast.CallExpr) string {
	name, recv := calleeName(c)
	path := ""
	if recv != nil {
		path = w.canon(recv)
	}
	switch name {
	case "StartSpan", "startMiddlewareSpan", "StartRequestSpan":
		return "spanStart"
	case "Start":
		if strings.HasSuffix(path, ".tracer") || strings.HasSuffix(path, "tracer") {
			return "spanStart"
		}
	case "FinishSpan", "FinishRequestSpan":
		return "spanFinish"
	case "End":
		if len(c.Args) == 0 {
			return "spanEnd"
		}
	case "SetName":
		return "setName"
	case "BeginRequest":
		return "metricsBegin"
	case "Finish":
		if len(c.Args) == 5 {
			return "metricsFinish"
		}
	case "ServeHTTP":
		return "next"
	case "newResponseWriter":
		return "wrap"
	case "panic":
		return "panic"
	case "Add":
		if strings.HasSuffix(path, ".activeRequests") {
			if len(c.Args) >= 2 {
				switch w.canon(c.Args[1]) {
				case "1":
					return "gaugeInc"
				case "-1":
					return "gaugeDec"
				}
			}
			return "gaugeOther"
		}
		if strings.HasSuffix(path, ".requestCount") {
			return "countAdd"
		}
	}
	return ""
}

// canon prints an expression with locals / the receiver as `_` and parameters as `#i`.
func (w *oaWalker) canon(e ast.Expr) string {
	switch v := e.(type) {
	case nil:
		return ""
	case *ast.Ident:
		if i, ok := w.params[v.Name]; ok {
			return fmt.Sprintf("#%d", i)
		}
		if w.locals[v.Name] {
			return "_"
		}
		return v.Name
	case *ast.BasicLit:
		return v.Value
	case *ast.ParenExpr:
		return "(" + w.canon(v.X) + ")"
	case *ast.SelectorExpr:
		return w.canon(v.X) + "." + v.Sel.Name
	case *ast.StarExpr:
		return "*" + w.canon(v.X)
	case *ast.UnaryExpr:
		return v.Op.String() + w.canon(v.X)
	case *ast.BinaryExpr:
		return w.canon(v.X) + " " + v.Op.String() + " " + w.canon(v.Y)
	case *ast.CallExpr:
		var as []string
		for _, a := range v.Args {
			as = append(as, w.canon(a))
		}
		ell := ""
		if v.Ellipsis.IsValid() {
			ell = "..."
		}
		return w.canon(v.Fun) + "(" + strings.Join(as, ", ") + ell + ")"
	case *ast.IndexExpr:
		return w.canon(v.X) + "[" + w.canon(v.Index) + "]"
	case *ast.TypeAssertExpr:
		return w.canon(v.X) + ".(" + src(v.Type) + ")"
	case *ast.CompositeLit:
		return src(v.Type) + "{…}"
	case *ast.FuncLit:
		return "func{…}"
	}
	return src(e)
}

func (w *oaWalker) op(name string) S { return sEv{fmt.Sprintf("Ev.op %d", w.ops.id(name))} }

// callsIn returns the recognised events inside n in evaluation order (arguments before the call); a function
// literal that contains one fails closed.
func (w *oaWalker) callsIn(n ast.Node) []S {
	var out []S
	if n == nil {
		return nil
	}
	var visit func(n ast.Node)
	visit = func(n ast.Node) {
		switch v := n.(type) {
		case nil:
			return
		case *ast.FuncLit:
			ast.Inspect(v.Body, func(m ast.Node) bool {
				if c, ok := m.(*ast.CallExpr); ok && oaClassify(w, c) != "" {
					fatalf(c.Pos(), "%s: event %s inside a function literal", w.name, oaClassify(w, c))
				}
				return true
			})
			return
		case *ast.CallExpr:
			visit(v.Fun)
			for _, a := range v.Args {
				visit(a)
			}
			if o := oaClassify(w, v); o != "" {
				w.noteCall(o, v)
				out = append(out, w.op(o))
			}
			return
		case *ast.CompositeLit:
			if u := src(v.Type); strings.HasSuffix(u, "esponseWriter") {
				for _, el := range v.Elts {
					visit(el)
				}
				out = append(out, w.op("wrap"))
				return
			}
		}
		// generic descent over expressions
		ast.Inspect(n, func(m ast.Node) bool {
			if m == n {
				return true
			}
			switch m.(type) {
			case *ast.CallExpr, *ast.FuncLit, *ast.CompositeLit:
				visit(m)
				return false
			}
			return true
		})
	}
	visit(n)
	return out
}

// noteCall records the argument provenance the Tie obligations look at.
func (w *oaWalker) noteCall(op string, c *ast.CallExpr) {
	var as []string
	for _, a := range c.Args {
		as = append(as, w.canon(a))
	}
	w.notes[op] = append(w.notes[op], strings.Join(as, " | "))
}

func (w *oaWalker) hasEvent(n ast.Node) bool {
	found := false
	ast.Inspect(n, func(m ast.Node) bool {
		switch v := m.(type) {
		case *ast.CallExpr:
			if oaClassify(w, v) != "" {
				found = true
			}
		case *ast.CompositeLit:
			if strings.HasSuffix(src(v.Type), "esponseWriter") {
				found = true
			}
		case *ast.ReturnStmt:
			found = true
		}
		return !found
	})
	return found
}

func (w *oaWalker) atom(cond string) int {
	*w.atoms++
	*w.conds = append(*w.conds, cond)
	return *w.atoms - 1
}

func (w *oaWalker) block(l []ast.Stmt) S {
	var parts []S
	for _, s := range l {
		parts = append(parts, w.stmt(s)...)
	}
	return mkSeq(parts)
}

func (w *oaWalker) stmt(s ast.Stmt) []S {
	switch v := s.(type) {
	case nil, *ast.EmptyStmt:
		return nil
	case *ast.BlockStmt:
		return []S{w.block(v.List)}
	case *ast.ExprStmt:
		return w.callsIn(v.X)
	case *ast.IncDecStmt:
		return w.callsIn(v.X)
	case *ast.DeclStmt:
		return w.callsIn(v)
	case *ast.AssignStmt:
		var out []S
		for _, r := range v.Rhs {
			out = append(out, w.callsIn(r)...)
		}
		if len(v.Rhs) == 1 {
			if c, ok := v.Rhs[0].(*ast.CallExpr); ok {
				if o := oaClassify(w, c); o != "" {
					for _, l := range v.Lhs {
						if sel, ok := l.(*ast.SelectorExpr); ok {
							w.assigns[o] = append(w.assigns[o], sel.Sel.Name)
						}
					}
				}
			}
		}
		return out
	case *ast.ReturnStmt:
		var out []S
		for _, r := range v.Results {
			out = append(out, w.callsIn(r)...)
		}
		if o := w.retOp(w, v.Results); o != "" {
			out = append(out, w.op(o))
		}
		return append(out, sRet{})
	case *ast.IfStmt:
		out := w.stmt(v.Init)
		if w.hasEventNoRet(v.Cond) {
			fatalf(v.Cond.Pos(), "%s: event inside a condition", w.name)
		}
		cond := w.canon(v.Cond)
		if as, ok := v.Init.(*ast.AssignStmt); ok && len(as.Rhs) == 1 {
			cond = w.canon(as.Rhs[0]) + " ; " + cond // `if _, ok := w.(T); ok`: the type assertion is the condition
		}
		a := w.atom(cond)
		var els S = sSkip{}
		if v.Else != nil {
			els = mkSeq(w.stmt(v.Else))
		}
		return append(out, sIte{a, w.block(v.Body.List), els})
	case *ast.SwitchStmt:
		out := w.stmt(v.Init)
		tag := ""
		if v.Tag != nil {
			if w.hasEventNoRet(v.Tag) {
				fatalf(v.Tag.Pos(), "%s: event inside a switch tag", w.name)
			}
			tag = w.canon(v.Tag) + " == "
		}
		return append(out, w.clauses(v.Body.List, tag))
	case *ast.TypeSwitchStmt:
		return []S{w.clauses(v.Body.List, "type ")}
	case *ast.SelectStmt:
		return []S{w.clauses(v.Body.List, "select ")}
	case *ast.DeferStmt:
		if o := oaClassify(w, v.Call); o != "" {
			w.noteCall(o, v.Call)
			return []S{sDefer{fmt.Sprintf("Ev.op %d", w.ops.id(o))}}
		}
		if w.hasEventNoRet(v.Call) {
			fatalf(v.Pos(), "%s: deferred function literal with events", w.name)
		}
		return nil
	case *ast.ForStmt, *ast.RangeStmt:
		if w.hasEvent(v) {
			fatalf(v.Pos(), "%s: loop containing an event or a return", w.name)
		}
		return nil
	case *ast.GoStmt:
		if w.hasEvent(v) {
			fatalf(v.Pos(), "%s: go statement with events", w.name)
		}
		return nil
	}
	fatalf(s.Pos(), "%s: unhandled statement %T", w.name, s)
	return nil
}

func (w *oaWalker) hasEventNoRet(n ast.Node) bool {
	found := false
	ast.Inspect(n, func(m ast.Node) bool {
		if c, ok := m.(*ast.CallExpr); ok && oaClassify(w, c) != "" {
			found = true
		}
		return !found
	})
	return found
}

// clauses renders switch / select clauses as a chain of conditionals (fresh atom per clause, default last).
func (w *oaWalker) clauses(l []ast.Stmt, prefix string) S {
	type cl struct {
		cond string
		body []ast.Stmt
		def  bool
	}
	var cls []cl
	for _, s := range l {
		switch c := s.(type) {
		case *ast.CaseClause:
			var cs []string
			for _, e := range c.List {
				if w.hasEventNoRet(e) {
					fatalf(e.Pos(), "%s: event inside a case expression", w.name)
				}
				cs = append(cs, w.canon(e))
			}
			cls = append(cls, cl{prefix + strings.Join(cs, ", "), c.Body, c.List == nil})
		case *ast.CommClause:
			cond := "default"
			if c.Comm != nil {
				if w.hasEventNoRet(c.Comm) {
					fatalf(c.Pos(), "%s: event inside a select communication", w.name)
				}
				cond = firstLine(src(c.Comm))
			}
			cls = append(cls, cl{prefix + cond, c.Body, c.Comm == nil})
		}
	}
	for _, c := range cls {
		for _, s := range c.body {
			if b, ok := s.(*ast.BranchStmt); ok {
				fatalf(b.Pos(), "%s: %s inside a switch / select clause", w.name, b.Tok)
			}
		}
	}
	var def S = sSkip{}
	for _, c := range cls {
		if c.def {
			def = w.block(c.body)
		}
	}
	res := def
	for i := len(cls) - 1; i >= 0; i-- {
		if cls[i].def {
			continue
		}
		a := w.atom(cls[i].cond)
		res = sIte{a, w.block(cls[i].body), res}
	}
	return res
}

// collectLocals: receiver, every identifier defined with := / var / range inside the body.
func oaLocals(recv string, body *ast.BlockStmt, params map[string]int) map[string]bool {
	loc := map[string]bool{}
	if recv != "" {
		loc[recv] = true
	}
	ast.Inspect(body, func(n ast.Node) bool {
		switch v := n.(type) {
		case *ast.AssignStmt:
			if v.Tok == token.DEFINE {
				for _, l := range v.Lhs {
					if id, ok := l.(*ast.Ident); ok {
						loc[id.Name] = true
					}
				}
			}
		case *ast.ValueSpec:
			for _, id := range v.Names {
				loc[id.Name] = true
			}
		case *ast.RangeStmt:
			for _, e := range []ast.Expr{v.Key, v.Value} {
				if id, ok := e.(*ast.Ident); ok {
					loc[id.Name] = true
				}
			}
		}
		return true
	})
	for p := range params {
		delete(loc, p)
	}
	return loc
}

func oaParams(ft *ast.FuncType) map[string]int {
	m := map[string]int{}
	i := 0
	for _, f := range ft.Params.List {
		if len(f.Names) == 0 {
			i++
			continue
		}
		for _, n := range f.Names {
			m[n.Name] = i
			i++
		}
	}
	return m
}

// oaPkg: the package whose helpers provenance may look into (set while a package's functions are analysed)
var oaPkg *pkg

// oaHelper resolves a call to a same-package function / method with exactly one result.
func oaHelper(w *oaWalker, c *ast.CallExpr) *ast.FuncDecl {
	if oaPkg == nil {
		return nil
	}
	var fd *ast.FuncDecl
	switch f := c.Fun.(type) {
	case *ast.Ident:
		fd = oaPkg.funcs[f.Name]
	case *ast.SelectorExpr:
		// only methods called on the analysed function's own receiver (an interface value may have a method of the same name)
		if id, ok := f.X.(*ast.Ident); ok && w.recv != "" && id.Name == w.recv {
			n := 0
			for _, ms := range oaPkg.methods {
				if d := ms[f.Sel.Name]; d != nil {
					fd = d
					n++
				}
			}
			if n != 1 {
				fd = nil
			}
		}
	}
	if fd == nil || fd.Type.Results == nil || len(fd.Type.Results.List) != 1 || len(fd.Type.Results.List[0].Names) > 1 {
		return nil
	}
	return fd
}

// provenance of an expression used as an argument: every value it can hold — through the assignments to a local and
// through the return statements of a same-package helper (its parameters replaced by the caller's arguments), so that
// extracting `if x == "" { x = "lit" }` into a helper keeps the table, while a helper that computes anything else
// (slicing, concatenation, another source) shows up in it.
func oaProv(w *oaWalker, body *ast.BlockStmt, e ast.Expr) []string {
	out := oaProvDepth(w, body, e, 0)
	set := map[string]bool{}
	var res []string
	for _, s := range out {
		if !set[s] {
			set[s] = true
			res = append(res, s)
		}
	}
	sort.Strings(res)
	return res
}

func oaProvDepth(w *oaWalker, body *ast.BlockStmt, e ast.Expr, depth int) []string {
	switch v := e.(type) {
	case *ast.ParenExpr:
		return oaProvDepth(w, body, v.X, depth)
	case *ast.CallExpr:
		if fd := oaHelper(w, v); fd != nil && depth < 3 && fd.Body != nil {
			hp := oaParams(fd.Type)
			hw := &oaWalker{name: fd.Name.Name, recv: recvName(fd), params: hp, locals: oaLocals(recvName(fd), fd.Body, hp), ops: w.ops, atoms: w.atoms, conds: w.conds,
				assigns: map[string][]string{}, notes: map[string][]string{}}
			var out []string
			var visit func(n ast.Node) bool
			visit = func(n ast.Node) bool {
				switch r := n.(type) {
				case *ast.FuncLit:
					return false
				case *ast.ReturnStmt:
					if len(r.Results) != 1 {
						out = append(out, "?"+w.canon(e))
						return false
					}
					for _, s := range oaProvDepth(hw, fd.Body, r.Results[0], depth+1) {
						// the helper's parameters are the caller's arguments
						if len(s) >= 2 && s[0] == '#' && strings.Trim(s[1:], "0123456789") == "" {
							var j int
							_, _ = fmt.Sscanf(s[1:], "%d", &j)
							if j < len(v.Args) {
								out = append(out, oaProvDepth(w, body, v.Args[j], depth+1)...)
								continue
							}
						}
						if strings.Contains(s, "#") {
							s = "helper " + fd.Name.Name + ": " + s // something computed from a parameter: keep it visible
						}
						out = append(out, s)
					}
					return false
				}
				return true
			}
			ast.Inspect(fd.Body, visit)
			if len(out) > 0 {
				return out
			}
		}
		return []string{w.canon(e)}
	case *ast.Ident:
		if _, isParam := w.params[v.Name]; isParam || !w.locals[v.Name] {
			return []string{w.canon(e)}
		}
		var out []string
		ast.Inspect(body, func(n ast.Node) bool {
			switch a := n.(type) {
			case *ast.AssignStmt:
				for i, l := range a.Lhs {
					if li, ok := l.(*ast.Ident); ok && li.Name == v.Name {
						if len(a.Rhs) == len(a.Lhs) {
							if depth < 3 {
								out = append(out, oaProvDepth(w, body, a.Rhs[i], depth+1)...)
							} else {
								out = append(out, w.canon(a.Rhs[i]))
							}
						} else {
							out = append(out, "multi:"+w.canon(a.Rhs[0]))
						}
					}
				}
			case *ast.ValueSpec:
				for i, n := range a.Names {
					if n.Name == v.Name {
						if i < len(a.Values) {
							out = append(out, oaProvDepth(w, body, a.Values[i], depth+1)...)
						} else {
							out = append(out, "zero")
						}
					}
				}
			}
			return true
		})
		if len(out) == 0 {
			return []string{w.canon(e)}
		}
		return out
	}
	return []string{w.canon(e)}
}

// flatten a + b + c
func oaConcat(e ast.Expr) []ast.Expr {
	if b, ok := e.(*ast.BinaryExpr); ok && b.Op == token.ADD {
		return append(oaConcat(b.X), oaConcat(b.Y)...)
	}
	return []ast.Expr{e}
}

func oaStrList(l []string) string {
	var q []string
	for _, s := range l {
		q = append(q, leanStr(s))
	}
	return "[" + strings.Join(q, ", ") + "]"
}

func oaStrListList(l [][]string) string {
	var q []string
	for _, s := range l {
		q = append(q, oaStrList(s))
	}
	return "[" + strings.Join(q, ", ") + "]"
}

// findCall returns the first call in body that classifies as op.
func oaFindCall(w *oaWalker, body *ast.BlockStmt, op string) *ast.CallExpr {
	var found *ast.CallExpr
	ast.Inspect(body, func(n ast.Node) bool {
		if c, ok := n.(*ast.CallExpr); ok && found == nil && oaClassify(w, c) == op {
			found = c
		}
		return found == nil
	})
	return found
}

// the request closure of a `func Middleware(...) func(http.Handler) http.Handler`: the innermost function literal
// whose parameters are (http.ResponseWriter, *http.Request)
func oaRequestClosure(d *ast.FuncDecl) *ast.FuncLit {
	var found *ast.FuncLit
	ast.Inspect(d.Body, func(n ast.Node) bool {
		if fl, ok := n.(*ast.FuncLit); ok && fl.Type.Params != nil && len(fl.Type.Params.List) == 2 {
			if src(fl.Type.Params.List[0].Type) == "http.ResponseWriter" && src(fl.Type.Params.List[1].Type) == "*http.Request" {
				found = fl
			}
		}
		return true
	})
	return found
}

// genObsApp never exits: a construct it cannot handle is recorded inside the generated file (which then lacks the
// definitions Tie/C08App.lean needs, so only C08's obligations break — fails closed for C08, not for the others).
func genObsApp(repo string) (out string) {
	defer func() {
		if r := recover(); r != nil {
			fe, ok := r.(fatalErr)
			if !ok {
				panic(r)
			}
			out = "/- GENERATED by extract/obsapp.go — EXTRACTION FAILED (failing closed) -/\nnamespace Rivaas.Gen.ObsApp\ndef extractError : String := " + leanStr(fe.msg) + "\nend Rivaas.Gen.ObsApp\n"
		}
	}()
	return genObsApp1(repo)
}

func genObsApp1(repo string) string {
	app := parseDir(filepath.Join(repo, "app"))
	met := parseDir(filepath.Join(repo, "metrics"))
	tra := parseDir(filepath.Join(repo, "tracing"))
	atoms := 0
	var conds []string
	ops := newTable("retEarly", "retNilState", "retState", "retNil", "retVal", "retSame", "retWrap", "spanStart", "spanFinish",
		"spanEnd", "setName", "metricsBegin", "metricsFinish", "gaugeInc", "gaugeDec", "gaugeOther", "countAdd", "next", "wrap", "panic")
	var b strings.Builder
	b.WriteString("/- GENERATED by extract/obsapp.go from app/observability.go, metrics/recording.go, metrics/middleware.go,\n   tracing/middleware.go, tracing/tracing.go of the current working tree — do not edit, not committed. -/\n")
	b.WriteString("import Rivaas.Tie.Skel\nnamespace Rivaas.Gen.ObsApp\nopen Rivaas.Skel Rivaas.Skel.Stmt\n\n")
	type fact struct{ name, val, doc string }
	var facts []fact
	mk := func(name string, ft *ast.FuncType, recv string, body *ast.BlockStmt, retOp func(w *oaWalker, r []ast.Expr) string) (*oaWalker, S) {
		params := oaParams(ft)
		w := &oaWalker{name: name, recv: recv, params: params, locals: oaLocals(recv, body, params), atoms: &atoms, conds: &conds, ops: ops,
			retOp: retOp, assigns: map[string][]string{}, notes: map[string][]string{}}
		first := atoms
		s := w.block(body.List)
		fmt.Fprintf(&b, "/-- skeleton of `%s` (atoms %d..%d) -/\ndef %s : Stmt :=\n  %s\n\n", name, first, atoms-1, leanIdent(name), s.lean("  "))
		return w, s
	}
	method := func(p *pkg, typ, name string) *ast.FuncDecl {
		d := p.methods[typ][name]
		if d == nil {
			fatalf(token.NoPos, "%s: method (%s).%s not found", filepath.Base(p.dir), typ, name)
		}
		return d
	}
	isNil := func(e ast.Expr) bool { id, ok := e.(*ast.Ident); return ok && id.Name == "nil" }

	// ---- app recorder
	oaPkg = app
	d := method(app, "observabilityRecorder", "OnRequestStart")
	startFirst := atoms
	w, _ := mk("appOnRequestStart", d.Type, recvName(d), d.Body, func(w *oaWalker, r []ast.Expr) string {
		if len(r) != 2 {
			fatalf(d.Pos(), "OnRequestStart: return with %d results", len(r))
		}
		if isNil(r[1]) {
			return "retNilState"
		}
		return "retState"
	})
	facts = append(facts, fact{"startFirstAtom", fmt.Sprint(startFirst), "atom of the first condition of OnRequestStart (the exclusion test)"})
	facts = append(facts, fact{"startSpanAssignedTo", oaStrList(w.assigns["spanStart"]), "fields of the state the results of StartSpan are assigned to"})
	facts = append(facts, fact{"startMetricsAssignedTo", oaStrList(w.assigns["metricsBegin"]), "fields of the state the result of BeginRequest is assigned to"})

	d = method(app, "observabilityRecorder", "WrapResponseWriter")
	mk("appWrapResponseWriter", d.Type, recvName(d), d.Body, func(w *oaWalker, r []ast.Expr) string {
		if len(r) == 1 {
			if c := w.canon(r[0]); c == "#0" {
				return "retSame"
			}
			if u, ok := r[0].(*ast.UnaryExpr); ok {
				if _, ok := u.X.(*ast.CompositeLit); ok {
					return "retWrap"
				}
			}
		}
		fatalf(d.Pos(), "WrapResponseWriter: unrecognised return")
		return ""
	})

	d = method(app, "observabilityRecorder", "OnRequestEnd")
	endFirst := atoms
	w, _ = mk("appOnRequestEnd", d.Type, recvName(d), d.Body, func(w *oaWalker, r []ast.Expr) string { return "retEarly" })
	if c := oaFindCall(w, d.Body, "metricsFinish"); c != nil {
		facts = append(facts, fact{"endFinishRoute", oaStrList(oaProv(w, d.Body, c.Args[4])), "every value the route argument of metrics.Finish can hold (parameters #i, literals quoted)"})
		facts = append(facts, fact{"endFinishState", leanStr(w.canon(c.Args[1])), "second argument of metrics.Finish"})
	} else {
		fatalf(d.Pos(), "OnRequestEnd: no metrics Finish call")
	}
	if c := oaFindCall(w, d.Body, "setName"); c != nil && len(c.Args) == 1 {
		var parts [][]string
		for _, p := range oaConcat(c.Args[0]) {
			parts = append(parts, oaProv(w, d.Body, p))
		}
		facts = append(facts, fact{"endSpanNameParts", oaStrListList(parts), "SetName argument: concatenated parts, each with every value it can hold"})
	} else {
		fatalf(d.Pos(), "OnRequestEnd: no SetName call")
	}
	if c := oaFindCall(w, d.Body, "spanFinish"); c != nil && len(c.Args) == 2 {
		facts = append(facts, fact{"endFinishSpanArgs", oaStrListList([][]string{oaProv(w, d.Body, c.Args[0]), oaProv(w, d.Body, c.Args[1])}), "FinishSpan arguments with provenance"})
	} else {
		fatalf(d.Pos(), "OnRequestEnd: no FinishSpan call")
	}
	// status / size provenance (truthfulness): every value statusCode / responseSize can hold
	if c := oaFindCall(w, d.Body, "metricsFinish"); c != nil {
		facts = append(facts, fact{"endStatusProv", oaStrList(oaProv(w, d.Body, c.Args[2])), "every value the status argument of metrics.Finish can hold"})
		facts = append(facts, fact{"endSizeProv", oaStrList(oaProv(w, d.Body, c.Args[3])), "every value the size argument of metrics.Finish can hold"})
	}
	facts = append(facts, fact{"endFirstAtom", fmt.Sprint(endFirst), "atom of the first condition of OnRequestEnd (the state guard)"})

	// ---- metrics recorder
	oaPkg = met
	d = method(met, "Recorder", "BeginRequest")
	w, _ = mk("metricsBeginRequest", d.Type, recvName(d), d.Body, func(w *oaWalker, r []ast.Expr) string {
		if len(r) == 1 && isNil(r[0]) {
			return "retNil"
		}
		return "retVal"
	})
	facts = append(facts, fact{"gaugeIncArgs", oaStrList(w.notes["gaugeInc"]), "arguments of the activeRequests.Add(+1) call(s)"})
	d = method(met, "Recorder", "Finish")
	finFirst := atoms
	w, _ = mk("metricsFinish", d.Type, recvName(d), d.Body, func(w *oaWalker, r []ast.Expr) string { return "retEarly" })
	facts = append(facts, fact{"gaugeDecArgs", oaStrList(w.notes["gaugeDec"]), "arguments of the activeRequests.Add(-1) call(s)"})
	facts = append(facts, fact{"finishFirstAtom", fmt.Sprint(finFirst), "atom of the first condition of Finish (the nil guard)"})
	// attribute keys and values appended for the request rows
	var attrs [][]string
	ast.Inspect(d.Body, func(n ast.Node) bool {
		if c, ok := n.(*ast.CallExpr); ok {
			if name, recv := calleeName(c); recv != nil && isIdent(recv, "attribute") && len(c.Args) == 2 {
				if lit, ok := c.Args[0].(*ast.BasicLit); ok {
					attrs = append(attrs, []string{strings.Trim(lit.Value, "\""), name, w.canon(c.Args[1])})
				} else {
					attrs = append(attrs, []string{"?" + w.canon(c.Args[0]), name, w.canon(c.Args[1])})
				}
			}
		}
		return true
	})
	facts = append(facts, fact{"finishAttrs", oaStrListList(attrs), "attributes Finish adds to the request rows: key, constructor, value (parameters #i)"})

	// ---- standalone middlewares
	for _, m := range []struct {
		p    *pkg
		name string
	}{{met, "metricsMiddleware"}, {tra, "tracingMiddleware"}} {
		fd := m.p.funcs["Middleware"]
		if fd == nil {
			fatalf(token.NoPos, "%s: func Middleware not found", m.name)
		}
		fl := oaRequestClosure(fd)
		if fl == nil {
			fatalf(fd.Pos(), "%s: request closure not found", m.name)
		}
		w, _ = mk(m.name, fl.Type, "", fl.Body, func(w *oaWalker, r []ast.Expr) string { return "" })
		// the nil check of BeginRequest's result: `if <x> == nil` where x is assigned from BeginRequest
		if m.name == "metricsMiddleware" {
			beginVar := ""
			ast.Inspect(fl.Body, func(n ast.Node) bool {
				if as, ok := n.(*ast.AssignStmt); ok && len(as.Rhs) == 1 && len(as.Lhs) == 1 {
					if c, ok := as.Rhs[0].(*ast.CallExpr); ok && oaClassify(w, c) == "metricsBegin" {
						if id, ok := as.Lhs[0].(*ast.Ident); ok {
							beginVar = id.Name
						}
					}
				}
				return true
			})
			if c := oaFindCall(w, fl.Body, "metricsFinish"); c != nil {
				if id, ok := c.Args[1].(*ast.Ident); !ok || id.Name != beginVar {
					fatalf(c.Pos(), "metrics.Middleware: Finish is not given the result of BeginRequest")
				}
			}
			facts = append(facts, fact{"mwBeginResultIsLocal", fmt.Sprint(beginVar != ""), "BeginRequest's result is bound to a local that Finish receives"})
		}
	}

	// ---- tracer
	for _, n := range []string{"StartSpan", "FinishSpan", "FinishRequestSpan"} {
		d = method(tra, "Tracer", n)
		mk("tracer"+n, d.Type, recvName(d), d.Body, func(w *oaWalker, r []ast.Expr) string {
			if len(r) == 0 {
				return "retEarly"
			}
			return ""
		})
	}

	b.WriteString("/-- op codes -/\ndef ops : List (Nat × String) := " + ops.lean() + "\n\n")
	for i, n := range ops.names {
		fmt.Fprintf(&b, "def op_%s : Nat := %d\n", n, i)
	}
	b.WriteString("\n/-- canonical condition of every atom (locals and receivers `_`, parameters `#i`) -/\ndef conds : List (Nat × String) := [")
	for i, c := range conds {
		if i > 0 {
			b.WriteString(",")
		}
		fmt.Fprintf(&b, "\n  (%d, %s)", i, leanStr(c))
	}
	b.WriteString("]\n\n")
	for _, f := range facts {
		typ := "List String"
		switch {
		case strings.HasPrefix(f.val, "[["):
			typ = "List (List String)"
		case strings.HasPrefix(f.val, "\""):
			typ = "String"
		case f.val == "true" || f.val == "false":
			typ = "Bool"
		case !strings.HasPrefix(f.val, "["):
			typ = "Nat"
		}
		fmt.Fprintf(&b, "/-- %s -/\ndef %s : %s := %s\n\n", f.doc, f.name, typ, f.val)
	}
	b.WriteString("end Rivaas.Gen.ObsApp\n")
	return b.String()
}

func leanIdent(s string) string { return s }
