package main

// Gen/Logging.lean (C20) — structural facts of logging/*.go (non-test files) that the two C20 models rely on:
// which types implement slog.Handler and how (delegate / buffer / format), that the console handler sends every
// attribute through its replaceAttr, that every handler is constructed with the redacting ReplaceAttr option, the
// statement order of the closure buildReplaceAttr returns, the lock discipline of the buffering Handle and of the
// flush function, how initializeHandler wraps the chain, and the order of the checks in Logger.log.
// Tie/C20Handlers.lean states them against Model/Log.lean and Model/LogBuf.lean (Flags.fixed).
//
// Things are located by structure (method signatures, field names, callee names, statement shapes), never by the
// names of locals or receivers, and both layouts of buffer.go are understood (flush/startBuffering as methods of
// the buffering handler or of its state).
//
// This generator never makes the extractor exit: whatever it does not recognise is recorded in `extractError`
// (and the fact it was computing stays false), so only Tie/C20Handlers.lean stops building.

import (
	"bytes"
	"fmt"
	"go/ast"
	"go/parser"
	"go/printer"
	"go/token"
	"os"
	"path/filepath"
	"sort"
	"strconv"
	"strings"
)

type lgErr struct{ msg string }

type lgFn struct {
	name, recvT, recvN string
	decl               *ast.FuncDecl
}

type lgX struct {
	fset    *token.FileSet
	fns     []*lgFn
	consts  map[string]string // package-level string constants
	structs []lgStruct
	errs    []string
}

type lgStruct struct {
	name string
	st   *ast.StructType
}

func (x *lgX) fail(n ast.Node, format string, a ...any) {
	where := ""
	if n != nil {
		p := x.fset.Position(n.Pos())
		where = fmt.Sprintf("%s:%d: ", filepath.Base(p.Filename), p.Line)
	}
	panic(lgErr{where + fmt.Sprintf(format, a...)})
}

func (x *lgX) text(n ast.Node) string {
	if n == nil {
		return ""
	}
	var b bytes.Buffer
	_ = printer.Fprint(&b, x.fset, n)
	return strings.Join(strings.Fields(b.String()), " ")
}

// guard runs f; a failure is recorded (the facts f was computing keep their zero value).
func (x *lgX) guard(what string, f func()) {
	defer func() {
		if r := recover(); r != nil {
			if e, ok := r.(lgErr); ok {
				x.errs = append(x.errs, what+": "+e.msg)
				return
			}
			x.errs = append(x.errs, what+": internal: "+fmt.Sprint(r))
		}
	}()
	f()
}

func (x *lgX) methodsNamed(name string) []*lgFn {
	var out []*lgFn
	for _, f := range x.fns {
		if f.recvT != "" && f.name == name {
			out = append(out, f)
		}
	}
	return out
}

func (x *lgX) method(t, name string) *lgFn {
	for _, f := range x.fns {
		if f.recvT == t && f.name == name {
			return f
		}
	}
	x.fail(nil, "method (%s).%s not found", t, name)
	return nil
}

func (x *lgX) hasMethod(t, name string) *lgFn {
	for _, f := range x.fns {
		if f.recvT == t && f.name == name {
			return f
		}
	}
	return nil
}

// lgWalk is ast.Inspect with the stack of ancestors (outermost first, n itself not included).
func lgWalk(root ast.Node, f func(n ast.Node, stack []ast.Node) bool) {
	var stack []ast.Node
	ast.Inspect(root, func(n ast.Node) bool {
		if n == nil {
			stack = stack[:len(stack)-1]
			return true
		}
		if !f(n, stack) {
			return false
		}
		stack = append(stack, n)
		return true
	})
}

func lgIdent(e ast.Expr, name string) bool {
	id, ok := e.(*ast.Ident)
	return ok && id.Name == name
}

func lgIdentName(e ast.Expr) string {
	if id, ok := e.(*ast.Ident); ok {
		return id.Name
	}
	return ""
}

// lgSelEnds: e is `<x>.name`; returns x.
func lgSelEnds(e ast.Expr, name string) (ast.Expr, bool) {
	s, ok := e.(*ast.SelectorExpr)
	if !ok || s.Sel.Name != name {
		return nil, false
	}
	return s.X, true
}

// lgRecvField: e is `<recv>.<field>`; returns the field name.
func lgRecvField(e ast.Expr, recv string) (string, bool) {
	s, ok := e.(*ast.SelectorExpr)
	if !ok || recv == "" || !lgIdent(s.X, recv) {
		return "", false
	}
	return s.Sel.Name, true
}

func lgCallOf(e ast.Expr) *ast.CallExpr {
	for {
		if p, ok := e.(*ast.ParenExpr); ok {
			e = p.X
			continue
		}
		break
	}
	c, _ := e.(*ast.CallExpr)
	return c
}

// lgMethodCall: e is a call `<x>.name(args)`; returns x and the call.
func lgMethodCall(e ast.Expr, name string) (ast.Expr, *ast.CallExpr) {
	c := lgCallOf(e)
	if c == nil {
		return nil, nil
	}
	if xx, ok := lgSelEnds(c.Fun, name); ok {
		return xx, c
	}
	return nil, nil
}

func lgComposite(e ast.Expr) *ast.CompositeLit {
	if u, ok := e.(*ast.UnaryExpr); ok && u.Op == token.AND {
		e = u.X
	}
	c, _ := e.(*ast.CompositeLit)
	return c
}

func lgField(c *ast.CompositeLit, key string) ast.Expr {
	if c == nil {
		return nil
	}
	for _, el := range c.Elts {
		if kv, ok := el.(*ast.KeyValueExpr); ok && lgIdent(kv.Key, key) {
			return kv.Value
		}
	}
	return nil
}

func lgContains(root ast.Node, pred func(ast.Node) bool) bool {
	found := false
	if root == nil {
		return false
	}
	ast.Inspect(root, func(n ast.Node) bool {
		if found || n == nil {
			return false
		}
		if pred(n) {
			found = true
		}
		return !found
	})
	return found
}

// lgParams: the parameters of a function type, one entry per name: (name, type text).
func (x *lgX) params(ft *ast.FuncType) [][2]string {
	var out [][2]string
	if ft.Params == nil {
		return nil
	}
	for _, f := range ft.Params.List {
		t := x.text(f.Type)
		if len(f.Names) == 0 {
			out = append(out, [2]string{"_", t})
		}
		for _, n := range f.Names {
			out = append(out, [2]string{n.Name, t})
		}
	}
	return out
}

func (x *lgX) results(ft *ast.FuncType) []string {
	var out []string
	if ft.Results == nil {
		return nil
	}
	for _, f := range ft.Results.List {
		n := len(f.Names)
		if n == 0 {
			n = 1
		}
		for i := 0; i < n; i++ {
			out = append(out, x.text(f.Type))
		}
	}
	return out
}

// ---------------------------------------------------------------- lock state per statement

// lgLock computes, for every node of a function body, whether the mutex `<owner>.mu` is held there and in which
// critical section (0 = not held, n > 0 = inside the n-th Lock…Unlock section), on every path; a join of a held and
// a released state is an error. Function literals count as "not held".
type lgLock struct {
	x        *lgX
	sec      map[ast.Node]int
	owner    string // text of the expression the mutex belongs to (all Lock/Unlock calls must agree)
	deferred bool   // `defer <owner>.mu.Unlock()` seen
	leak     bool   // a return with the mutex held and no deferred Unlock
	loops    []int
	next     int
}

func (w *lgLock) held(n ast.Node) bool { return w.sec[n] > 0 }

// sameSection: both nodes lie in the same critical section
func (w *lgLock) sameSection(a, b ast.Node) bool { return w.sec[a] > 0 && w.sec[a] == w.sec[b] }

func (w *lgLock) muCall(e ast.Expr) string {
	c := lgCallOf(e)
	if c == nil || len(c.Args) != 0 {
		return ""
	}
	s, ok := c.Fun.(*ast.SelectorExpr)
	if !ok || (s.Sel.Name != "Lock" && s.Sel.Name != "Unlock") {
		return ""
	}
	o, ok := lgSelEnds(s.X, "mu")
	if !ok {
		return ""
	}
	t := w.x.text(o)
	if w.owner == "" {
		w.owner = t
	} else if w.owner != t {
		w.x.fail(e, "two different mutexes in one function: %s.mu and %s.mu", w.owner, t)
	}
	return s.Sel.Name
}

func (w *lgLock) mark(n ast.Node, st int) {
	if n == nil {
		return
	}
	ast.Inspect(n, func(m ast.Node) bool {
		if m == nil {
			return true
		}
		if _, ok := m.(*ast.FuncLit); ok {
			ast.Inspect(m, func(k ast.Node) bool {
				if k != nil {
					w.sec[k] = 0
				}
				return true
			})
			return false
		}
		w.sec[m] = st
		return true
	})
}

func (w *lgLock) stmts(list []ast.Stmt, st int) (int, bool) {
	for i, s := range list {
		var term bool
		st, term = w.stmt(s, st)
		if term {
			for _, rest := range list[i+1:] {
				w.mark(rest, 0) // unreachable
			}
			return st, true
		}
	}
	return st, false
}

func (w *lgLock) join(n ast.Node, a, b int) int {
	if (a > 0) != (b > 0) {
		w.x.fail(n, "two paths leave the mutex in different states")
	}
	if a == b {
		return a
	}
	w.next++ // held on both paths but taken in different sections: a section of its own
	return w.next
}

func (w *lgLock) stmt(s ast.Stmt, st int) (int, bool) {
	if s == nil {
		return st, false
	}
	w.sec[s] = st
	switch v := s.(type) {
	case *ast.ExprStmt:
		w.mark(v, st)
		switch w.muCall(v.X) {
		case "Lock":
			if st > 0 {
				w.x.fail(v, "Lock while the mutex is held")
			}
			w.next++
			return w.next, false
		case "Unlock":
			if st == 0 {
				w.x.fail(v, "Unlock while the mutex is not held")
			}
			return 0, false
		}
		return st, false
	case *ast.DeferStmt:
		if w.muCall(v.Call) == "Unlock" {
			if st == 0 {
				w.x.fail(v, "deferred Unlock while the mutex is not held")
			}
			w.deferred = true
			return st, false
		}
		w.mark(v, 0)
		return st, false
	case *ast.GoStmt:
		w.mark(v, 0)
		return st, false
	case *ast.AssignStmt, *ast.DeclStmt, *ast.IncDecStmt, *ast.SendStmt, *ast.EmptyStmt:
		w.mark(v, st)
		return st, false
	case *ast.ReturnStmt:
		w.mark(v, st)
		if st > 0 && !w.deferred {
			w.leak = true
		}
		return st, true
	case *ast.BlockStmt:
		return w.stmts(v.List, st)
	case *ast.LabeledStmt:
		return w.stmt(v.Stmt, st)
	case *ast.IfStmt:
		if v.Init != nil {
			st, _ = w.stmt(v.Init, st)
		}
		w.mark(v.Cond, st)
		w.sec[v.Body] = st
		o1, t1 := w.stmts(v.Body.List, st)
		o2, t2 := st, false
		if v.Else != nil {
			o2, t2 = w.stmt(v.Else, st)
		}
		switch {
		case t1 && t2:
			return st, true
		case t1:
			return o2, false
		case t2:
			return o1, false
		}
		return w.join(v, o1, o2), false
	case *ast.ForStmt:
		if v.Init != nil {
			w.mark(v.Init, st)
		}
		if v.Cond != nil {
			w.mark(v.Cond, st)
		}
		if v.Post != nil {
			w.mark(v.Post, st)
		}
		w.loops = append(w.loops, st)
		o, t := w.stmts(v.Body.List, st)
		w.loops = w.loops[:len(w.loops)-1]
		if !t && o != st {
			w.x.fail(v, "the loop body changes the state of the mutex")
		}
		return st, false
	case *ast.RangeStmt:
		w.mark(v.X, st)
		if v.Key != nil {
			w.mark(v.Key, st)
		}
		if v.Value != nil {
			w.mark(v.Value, st)
		}
		w.loops = append(w.loops, st)
		o, t := w.stmts(v.Body.List, st)
		w.loops = w.loops[:len(w.loops)-1]
		if !t && o != st {
			w.x.fail(v, "the loop body changes the state of the mutex")
		}
		return st, false
	case *ast.BranchStmt:
		if v.Label != nil || len(w.loops) == 0 || (v.Tok != token.BREAK && v.Tok != token.CONTINUE) {
			w.x.fail(v, "branch statement %s in a function whose lock discipline is extracted", w.x.text(v))
		}
		if w.loops[len(w.loops)-1] != st {
			w.x.fail(v, "%s leaves the loop body with a different mutex state", v.Tok)
		}
		return st, true
	case *ast.SwitchStmt, *ast.TypeSwitchStmt, *ast.SelectStmt:
		if lgContains(v, func(n ast.Node) bool {
			e, ok := n.(ast.Expr)
			if !ok {
				return false
			}
			c := lgCallOf(e)
			if c == nil {
				return false
			}
			s, ok := c.Fun.(*ast.SelectorExpr)
			return ok && (s.Sel.Name == "Lock" || s.Sel.Name == "Unlock")
		}) || lgContains(v, func(n ast.Node) bool { _, ok := n.(*ast.BranchStmt); return ok }) {
			w.x.fail(v, "%T with Lock/Unlock or a branch statement inside", s)
		}
		w.mark(v, st)
		return st, false
	}
	w.x.fail(s, "statement form %T in a function whose lock discipline is extracted", s)
	return st, false
}

func (x *lgX) lockWalk(body *ast.BlockStmt) *lgLock {
	w := &lgLock{x: x, sec: map[ast.Node]int{}}
	w.stmts(body.List, 0)
	return w
}

// ---------------------------------------------------------------- parse

func lgParse(repo string) *lgX {
	x := &lgX{fset: token.NewFileSet(), consts: map[string]string{}}
	dir := filepath.Join(repo, "logging")
	ents, err := os.ReadDir(dir)
	if err != nil {
		x.fail(nil, "%v", err)
	}
	var names []string
	for _, e := range ents {
		n := e.Name()
		if e.IsDir() || !strings.HasSuffix(n, ".go") || strings.HasSuffix(n, "_test.go") {
			continue
		}
		names = append(names, n)
	}
	sort.Strings(names)
	for _, n := range names {
		f, err := parser.ParseFile(x.fset, filepath.Join(dir, n), nil, parser.SkipObjectResolution)
		if err != nil {
			x.fail(nil, "parse error: %v", err)
		}
		if f.Name.Name != "logging" {
			continue
		}
		for _, d := range f.Decls {
			switch d := d.(type) {
			case *ast.FuncDecl:
				if d.Body == nil {
					continue
				}
				fn := &lgFn{name: d.Name.Name, decl: d}
				if d.Recv != nil && len(d.Recv.List) == 1 {
					t := d.Recv.List[0].Type
					if st, ok := t.(*ast.StarExpr); ok {
						t = st.X
					}
					if ix, ok := t.(*ast.IndexExpr); ok {
						t = ix.X
					}
					fn.recvT = x.text(t)
					if len(d.Recv.List[0].Names) == 1 {
						fn.recvN = d.Recv.List[0].Names[0].Name
					}
				}
				x.fns = append(x.fns, fn)
			case *ast.GenDecl:
				if d.Tok == token.TYPE {
					for _, sp := range d.Specs {
						if ts, ok := sp.(*ast.TypeSpec); ok {
							if st, ok := ts.Type.(*ast.StructType); ok {
								x.structs = append(x.structs, lgStruct{ts.Name.Name, st})
							}
						}
					}
				}
				if d.Tok != token.CONST {
					continue
				}
				for _, sp := range d.Specs {
					vs, ok := sp.(*ast.ValueSpec)
					if !ok {
						continue
					}
					for i, nm := range vs.Names {
						if i < len(vs.Values) {
							if bl, ok := vs.Values[i].(*ast.BasicLit); ok && bl.Kind == token.STRING {
								if s, err := strconv.Unquote(bl.Value); err == nil {
									x.consts[nm.Name] = s
								}
							}
						}
					}
				}
			}
		}
	}
	if len(x.fns) == 0 {
		x.fail(nil, "no functions found in %s", dir)
	}
	return x
}

func (x *lgX) strValue(e ast.Expr) (string, bool) {
	switch v := e.(type) {
	case *ast.BasicLit:
		if v.Kind == token.STRING {
			s, err := strconv.Unquote(v.Value)
			return s, err == nil
		}
	case *ast.Ident:
		s, ok := x.consts[v.Name]
		return s, ok
	}
	return "", false
}

// ---------------------------------------------------------------- the facts

type lgFacts struct {
	handleTypes [][2]string

	consoleHandleReplacesCallAttrs, consoleWithAttrsReplaces                             bool
	consoleReplaceRecursesGroups, consoleReplaceCallsOption, consoleReplaceNoEarlyReturn bool
	consoleCtorStoresOpts, consoleDerivedKeepOpts                                        bool

	constructors [][3]string // function, constructor, "true"/"false"

	replaceAttrShape                 []string
	sensitiveCaseKeys                []string
	markerLiteral                    string
	sensitiveSwitchReturnsBeforeUser bool

	handleTestsBufferingUnderLock, bufferedRecordKeepsHandler, bufferedRecordCloned, passThroughAfterUnlock bool

	flushLoops, bufferingOffOnlyWhenEmpty, batchTakenUnderLock, replayAfterUnlock, replayContinuesOnError, replayThroughRecordHandler bool
	flushHoldsLoggerMu, startHoldsLoggerMu, setLevelHoldsLoggerMu                                                                     bool

	wrapAtConstruction, rewrapsWhileBuffering, contextHandlerWrapsBuiltins bool

	logOrder           []string
	levelMethodsUseLog bool
}

// isAppendTo: s is `<t> = append(<t>, …)` where <t> is a selector ending in .field; returns the call.
func (x *lgX) appendToField(s *ast.AssignStmt, field string) *ast.CallExpr {
	if len(s.Lhs) != 1 || len(s.Rhs) != 1 {
		return nil
	}
	if _, ok := lgSelEnds(s.Lhs[0], field); !ok {
		return nil
	}
	c := lgCallOf(s.Rhs[0])
	if c == nil || !lgIdent(c.Fun, "append") || len(c.Args) < 2 {
		return nil
	}
	if x.text(c.Args[0]) != x.text(s.Lhs[0]) {
		return nil
	}
	return c
}

// delegField: e is the call `<recv>.<field>.Handle(…)`; returns the field.
func lgDelegates(e ast.Expr, recv string) (string, bool) {
	xx, c := lgMethodCall(e, "Handle")
	if c == nil {
		return "", false
	}
	return lgRecvField(xx, recv)
}

type lgHandleInfo struct {
	fn         *lgFn
	class      string
	delegField string
	bufIf      *ast.IfStmt
}

func (x *lgX) classifyHandle(fn *lgFn) *lgHandleInfo {
	info := &lgHandleInfo{fn: fn, class: "other"}
	body := fn.decl.Body
	var appends []*ast.AssignStmt
	hasDeleg, writesSelf := false, false
	var returns []*ast.ReturnStmt
	retStack := map[*ast.ReturnStmt][]ast.Node{}
	lgWalk(body, func(n ast.Node, stack []ast.Node) bool {
		switch v := n.(type) {
		case *ast.FuncLit:
			return false
		case *ast.AssignStmt:
			if x.appendToField(v, "records") != nil {
				appends = append(appends, v)
			}
		case *ast.ReturnStmt:
			returns = append(returns, v)
			retStack[v] = append([]ast.Node(nil), stack...)
		case *ast.CallExpr:
			if f, ok := lgDelegates(v, fn.recvN); ok {
				hasDeleg = true
				info.delegField = f
			}
			if xx, c := lgMethodCall(v, "Write"); c != nil {
				if _, ok := lgRecvField(xx, fn.recvN); ok {
					writesSelf = true
				}
			}
		}
		return true
	})
	isDelegReturn := func(r *ast.ReturnStmt) bool {
		if len(r.Results) != 1 {
			return false
		}
		_, ok := lgDelegates(r.Results[0], fn.recvN)
		return ok
	}
	switch {
	case len(appends) > 0 && hasDeleg:
		// the buffering branch: the innermost `if` around the append
		var bufIf *ast.IfStmt
		lgWalk(body, func(n ast.Node, stack []ast.Node) bool {
			if n == ast.Node(appends[0]) {
				for i := len(stack) - 1; i >= 0; i-- {
					if is, ok := stack[i].(*ast.IfStmt); ok {
						bufIf = is
						break
					}
				}
			}
			return true
		})
		info.bufIf = bufIf // may be nil: the early-return form `if !buffering { unlock; return delegate }; append…; return nil`
		// every return either hands the record to the wrapped handler or reports success after buffering it
		ok := false
		for _, r := range returns {
			if isDelegReturn(r) {
				ok = true
				continue
			}
			if len(r.Results) == 1 && lgIdent(r.Results[0], "nil") {
				continue
			}
			return info
		}
		if ok {
			info.class = "buffers"
		}
	case len(appends) > 0 && !writesSelf:
		info.class = "spy"
	case len(appends) == 0 && hasDeleg:
		all := len(returns) > 0
		for _, r := range returns {
			all = all && isDelegReturn(r)
		}
		if all {
			info.class = "delegates"
		}
	case len(appends) == 0 && !hasDeleg && writesSelf:
		info.class = "formats"
	}
	return info
}

// replacedIf: the `if ra, ok := <recv>.<repl>(…); ok {` that directly guards n (n lies in its body); returns the
// name bound to the first result.
func (x *lgX) replacedBy(stack []ast.Node, recv, repl string) (string, *ast.CallExpr) {
	for i := len(stack) - 1; i >= 0; i-- {
		switch v := stack[i].(type) {
		case *ast.IfStmt:
			if i+1 >= len(stack) || stack[i+1] != ast.Node(v.Body) {
				return "", nil // in the else part or in the header
			}
			as, ok := v.Init.(*ast.AssignStmt)
			if !ok || as.Tok != token.DEFINE || len(as.Lhs) != 2 || len(as.Rhs) != 1 {
				return "", nil
			}
			xx, c := lgMethodCall(as.Rhs[0], repl)
			if c == nil || !lgIdent(xx, recv) {
				return "", nil
			}
			okName := lgIdentName(as.Lhs[1])
			if okName == "" || okName == "_" || !lgIdent(v.Cond, okName) {
				return "", nil
			}
			return lgIdentName(as.Lhs[0]), c
		case *ast.BlockStmt:
			continue
		default:
			return "", nil
		}
	}
	return "", nil
}

// usesOnlyAs: every occurrence of identifier `name` inside root satisfies ok(stack).
func lgUsesOnly(root ast.Node, name string, ok func(id *ast.Ident, stack []ast.Node) bool) bool {
	good := true
	lgWalk(root, func(n ast.Node, stack []ast.Node) bool {
		if id, isId := n.(*ast.Ident); isId && id.Name == name {
			// the selector part of `x.name` is not a use of the variable
			if len(stack) > 0 {
				if se, isSel := stack[len(stack)-1].(*ast.SelectorExpr); isSel && se.Sel == id {
					return true
				}
				if kv, isKV := stack[len(stack)-1].(*ast.KeyValueExpr); isKV && kv.Key == ast.Expr(id) {
					return true
				}
			}
			if !ok(id, stack) {
				good = false
			}
		}
		return true
	})
	return good
}

func (x *lgX) console(F *lgFacts, T string) {
	handle := x.method(T, "Handle")
	recv := handle.recvN
	if recv == "" {
		x.fail(handle.decl, "(%s).Handle has no named receiver", T)
	}
	// the method that applies the option: results (slog.Attr, bool)
	var repl *lgFn
	for _, f := range x.fns {
		if f.recvT != T {
			continue
		}
		r := x.results(f.decl.Type)
		if len(r) == 2 && r[0] == "slog.Attr" && r[1] == "bool" {
			if repl != nil {
				x.fail(f.decl, "two methods of %s return (slog.Attr, bool)", T)
			}
			repl = f
		}
	}
	if repl == nil {
		x.fail(handle.decl, "%s has no method returning (slog.Attr, bool) (the replaceAttr step)", T)
	}
	// attribute printers: methods of T without results that take a slog.Attr
	printers := map[string]int{}
	for _, f := range x.fns {
		if f.recvT != T || f == repl || len(x.results(f.decl.Type)) != 0 {
			continue
		}
		for i, p := range x.params(f.decl.Type) {
			if p[1] == "slog.Attr" {
				printers[f.name] = i
			}
		}
	}
	// the pre-bound attrs field: the field of type []slog.Attr
	attrsField, optsField := "", ""
	x.structFields(T, func(name, typ string) {
		if typ == "[]slog.Attr" {
			attrsField = name
		}
		if typ == "*slog.HandlerOptions" {
			optsField = name
		}
	})
	if attrsField == "" || optsField == "" {
		x.fail(handle.decl, "%s: no field of type []slog.Attr / *slog.HandlerOptions", T)
	}
	isReplArg := func(id *ast.Ident, stack []ast.Node) bool {
		if len(stack) == 0 {
			return false
		}
		c, ok := stack[len(stack)-1].(*ast.CallExpr)
		if !ok {
			return false
		}
		xx, cc := lgMethodCall(c, repl.name)
		if cc == nil || !lgIdent(xx, recv) {
			return false
		}
		for _, a := range c.Args {
			if a == ast.Expr(id) {
				return true
			}
		}
		return false
	}

	// (a) Handle
	x.guard("console Handle", func() {
		calls, good := 0, true
		lgWalk(handle.decl.Body, func(n ast.Node, stack []ast.Node) bool {
			switch v := n.(type) {
			case *ast.FuncLit:
				// a callback that receives the record's attributes one by one: the attribute may only be handed to replaceAttr
				for _, p := range x.params(v.Type) {
					if p[1] == "slog.Attr" && p[0] != "_" {
						if !lgUsesOnly(v.Body, p[0], isReplArg) {
							good = false
						}
					}
				}
			case *ast.CallExpr:
				xx, name := ast.Expr(nil), ""
				if s, ok := v.Fun.(*ast.SelectorExpr); ok {
					xx, name = s.X, s.Sel.Name
				}
				pos, isPrinter := printers[name]
				if !isPrinter || !lgIdent(xx, recv) {
					return true
				}
				calls++
				if pos >= len(v.Args) {
					good = false
					return true
				}
				arg := lgIdentName(v.Args[pos])
				if arg == "" {
					good = false
					return true
				}
				// inside `for _, a := range <recv>.<attrs>` with a the argument
				for i := len(stack) - 1; i >= 0; i-- {
					if _, ok := stack[i].(*ast.FuncLit); ok {
						break
					}
					if rs, ok := stack[i].(*ast.RangeStmt); ok {
						if f, ok := lgRecvField(rs.X, recv); ok && f == attrsField && rs.Value != nil && lgIdent(rs.Value, arg) {
							return true
						}
					}
				}
				if ra, _ := x.replacedBy(stack[:len(stack)-1], recv, repl.name); ra != "" && ra == arg {
					// stack[:len-1]: the ExprStmt holding the call is the last element
					return true
				}
				good = false
			}
			return true
		})
		if calls == 0 {
			x.fail(handle.decl, "(%s).Handle calls no attribute printer", T)
		}
		// the record's attributes must be visited at all: a call `<record>.Attrs(func…)`
		recParam := ""
		for _, p := range x.params(handle.decl.Type) {
			if p[1] == "slog.Record" {
				recParam = p[0]
			}
		}
		visits := lgContains(handle.decl.Body, func(n ast.Node) bool {
			e, ok := n.(ast.Expr)
			if !ok {
				return false
			}
			xx, c := lgMethodCall(e, "Attrs")
			return c != nil && lgIdent(xx, recParam)
		})
		F.consoleHandleReplacesCallAttrs = good && visits
	})

	// (b) WithAttrs
	x.guard("console WithAttrs", func() {
		wa := x.method(T, "WithAttrs")
		if wa.recvN == "" {
			x.fail(wa.decl, "no named receiver")
		}
		r := wa.recvN
		param := ""
		for _, p := range x.params(wa.decl.Type) {
			if p[1] == "[]slog.Attr" {
				param = p[0]
			}
		}
		if param == "" || param == "_" {
			x.fail(wa.decl, "(%s).WithAttrs: no named []slog.Attr parameter", T)
		}
		good, replaced := true, 0
		lgWalk(wa.decl.Body, func(n ast.Node, stack []ast.Node) bool {
			c, ok := n.(*ast.CallExpr)
			if !ok || !lgIdent(c.Fun, "append") || len(c.Args) < 2 {
				return true
			}
			if c.Ellipsis.IsValid() {
				if f, ok := lgRecvField(c.Args[len(c.Args)-1], r); ok && f == attrsField && len(c.Args) == 2 {
					return true
				}
				good = false
				return true
			}
			// stack: … IfStmt, BlockStmt, AssignStmt ; the call is the RHS of the assignment
			st := stack
			if len(st) > 0 {
				if _, ok := st[len(st)-1].(*ast.AssignStmt); ok {
					st = st[:len(st)-1]
				}
			}
			ra, call := x.replacedBy(st, r, repl.name)
			if ra == "" {
				good = false
				return true
			}
			for _, a := range c.Args[1:] {
				if !lgIdent(a, ra) {
					good = false
				}
			}
			// the replaced attribute is an element of the parameter
			inRange := false
			for i := len(stack) - 1; i >= 0; i-- {
				if rs, ok := stack[i].(*ast.RangeStmt); ok && lgIdent(rs.X, param) && rs.Value != nil {
					for _, a := range call.Args {
						if lgIdent(a, lgIdentName(rs.Value)) {
							inRange = true
						}
					}
					// the element is only ever handed to replaceAttr
					rr := r
					if !lgUsesOnly(rs.Body, lgIdentName(rs.Value), func(id *ast.Ident, stack []ast.Node) bool {
						if len(stack) == 0 {
							return false
						}
						cc, ok := stack[len(stack)-1].(*ast.CallExpr)
						if !ok {
							return false
						}
						xx, c2 := lgMethodCall(cc, repl.name)
						return c2 != nil && lgIdent(xx, rr)
					}) {
						good = false
					}
				}
			}
			if inRange {
				replaced++
			} else {
				good = false
			}
			return true
		})
		// the parameter itself is only ranged over or measured
		if !lgUsesOnly(wa.decl.Body, param, func(id *ast.Ident, stack []ast.Node) bool {
			if len(stack) == 0 {
				return false
			}
			switch p := stack[len(stack)-1].(type) {
			case *ast.RangeStmt:
				return p.X == ast.Expr(id)
			case *ast.CallExpr:
				return lgIdent(p.Fun, "len")
			}
			return false
		}) {
			good = false
		}
		// the new handler's attrs field is a local (the slice appended to), not the parameter or the old slice
		okLit := false
		lgWalk(wa.decl.Body, func(n ast.Node, _ []ast.Node) bool {
			if rs, ok := n.(*ast.ReturnStmt); ok && len(rs.Results) == 1 {
				if cl := lgComposite(rs.Results[0]); cl != nil && x.text(cl.Type) == T {
					if v := lgField(cl, attrsField); v != nil && lgIdentName(v) != "" && lgIdentName(v) != param {
						okLit = true
					}
				}
			}
			return true
		})
		F.consoleWithAttrsReplaces = good && replaced > 0 && okLit
	})

	// (c) replaceAttr
	x.guard("console replaceAttr", func() {
		r := repl.recvN
		if r == "" {
			x.fail(repl.decl, "no named receiver")
		}
		attrParam := ""
		for _, p := range x.params(repl.decl.Type) {
			if p[1] == "slog.Attr" {
				attrParam = p[0]
			}
		}
		if attrParam == "" {
			x.fail(repl.decl, "no slog.Attr parameter")
		}
		list := repl.decl.Body.List
		groupIdx, optIdx := -1, -1
		for i, s := range list {
			is, ok := s.(*ast.IfStmt)
			if !ok {
				continue
			}
			if groupIdx < 0 {
				if be, ok := is.Cond.(*ast.BinaryExpr); ok && be.Op == token.EQL && is.Init == nil {
					if _, ok := lgSelEnds(be.Y, "KindGroup"); ok {
						if _, c := lgMethodCall(be.X, "Kind"); c != nil {
							groupIdx = i
							continue
						}
					}
				}
			}
			if groupIdx >= 0 && optIdx < 0 {
				// `if rep := <r>.<opts>.ReplaceAttr; rep != nil {` or `if <r>.<opts>.ReplaceAttr != nil {`
				be, ok := is.Cond.(*ast.BinaryExpr)
				if !ok || be.Op != token.NEQ || !lgIdent(be.Y, "nil") || is.Else != nil {
					continue
				}
				isOpt := func(e ast.Expr) bool {
					o, ok := lgSelEnds(e, "ReplaceAttr")
					if !ok {
						return false
					}
					f, ok := lgRecvField(o, r)
					return ok && f == optsField
				}
				callee := ""
				if isOpt(be.X) {
					callee = x.text(be.X)
				} else if as, ok := is.Init.(*ast.AssignStmt); ok && len(as.Lhs) == 1 && len(as.Rhs) == 1 && isOpt(as.Rhs[0]) && lgIdent(be.X, lgIdentName(as.Lhs[0])) {
					callee = lgIdentName(as.Lhs[0])
				}
				if callee == "" {
					continue
				}
				// body: `<a> = callee(…, <a>)`
				for _, bs := range is.Body.List {
					if as, ok := bs.(*ast.AssignStmt); ok && len(as.Lhs) == 1 && len(as.Rhs) == 1 && lgIdent(as.Lhs[0], attrParam) {
						if c := lgCallOf(as.Rhs[0]); c != nil && x.text(c.Fun) == callee && len(c.Args) > 0 && lgIdent(c.Args[len(c.Args)-1], attrParam) {
							optIdx = i
						}
					}
				}
			}
		}
		if groupIdx < 0 {
			x.fail(repl.decl, "no `if ….Kind() == slog.KindGroup` at the top level of (%s).%s", T, repl.name)
		}
		// the group branch
		gi := list[groupIdx].(*ast.IfStmt)
		recurses, early := false, false
		for _, s := range gi.Body.List {
			if rs, ok := s.(*ast.RangeStmt); ok && rs.Value != nil && !recurses {
				// ranges over the members (`<a>.Value.Group()` directly or through a local assigned once from it)
				members := false
				if _, c := lgMethodCall(rs.X, "Group"); c != nil {
					members = true
				} else if nm := lgIdentName(rs.X); nm != "" {
					n := 0
					for _, t := range gi.Body.List {
						if as, ok := t.(*ast.AssignStmt); ok {
							for j, l := range as.Lhs {
								if lgIdent(l, nm) {
									n++
									if j < len(as.Rhs) {
										if _, c := lgMethodCall(as.Rhs[j], "Group"); c != nil {
											members = true
										}
									}
								}
							}
						}
					}
					if n != 1 {
						members = false
					}
				}
				rec := lgContains(rs.Body, func(n ast.Node) bool {
					e, ok := n.(ast.Expr)
					if !ok {
						return false
					}
					xx, c := lgMethodCall(e, repl.name)
					if c == nil || !lgIdent(xx, r) {
						return false
					}
					for _, a := range c.Args {
						if lgIdent(a, lgIdentName(rs.Value)) {
							return true
						}
					}
					return false
				})
				jumps := lgContains(rs.Body, func(n ast.Node) bool {
					switch n.(type) {
					case *ast.ReturnStmt, *ast.BranchStmt:
						return true
					}
					return false
				})
				if members && rec && !jumps {
					recurses = true
				}
				continue
			}
			if !recurses && lgContains(s, func(n ast.Node) bool { _, ok := n.(*ast.ReturnStmt); return ok }) {
				early = true // a return inside the group branch before the members are visited
			}
		}
		F.consoleReplaceRecursesGroups = recurses
		F.consoleReplaceCallsOption = optIdx > groupIdx
		// no return outside the group branch before the option was consulted; the final return hands back the attribute
		last := len(list)
		if optIdx >= 0 {
			last = optIdx
		}
		for i, s := range list[:last] {
			if i == groupIdx {
				continue
			}
			if lgContains(s, func(n ast.Node) bool { _, ok := n.(*ast.ReturnStmt); return ok }) {
				early = true
			}
		}
		finalOK := false
		if rs, ok := list[len(list)-1].(*ast.ReturnStmt); ok && len(rs.Results) == 2 && lgIdent(rs.Results[0], attrParam) {
			finalOK = true
		}
		for _, s := range list[last+1:] {
			if _, ok := s.(*ast.ReturnStmt); !ok && lgContains(s, func(n ast.Node) bool { _, ok := n.(*ast.ReturnStmt); return ok }) {
				finalOK = false
			}
		}
		F.consoleReplaceNoEarlyReturn = !early && finalOK && optIdx >= 0
	})

	// options reach the handler and stay with every derived handler
	x.guard("console options", func() {
		derived, n := true, 0
		for _, f := range x.fns {
			if f.recvT != T {
				continue
			}
			lgWalk(f.decl.Body, func(m ast.Node, _ []ast.Node) bool {
				if cl, ok := m.(*ast.CompositeLit); ok && x.text(cl.Type) == T {
					n++
					v := lgField(cl, optsField)
					if v == nil {
						derived = false
					} else if fld, ok := lgRecvField(v, f.recvN); !ok || fld != optsField {
						derived = false
					}
				}
				return true
			})
		}
		F.consoleDerivedKeepOpts = derived && n > 0
		ctorOK, ctors := true, 0
		for _, f := range x.fns {
			if f.recvT != "" {
				continue
			}
			lgWalk(f.decl.Body, func(m ast.Node, _ []ast.Node) bool {
				cl, ok := m.(*ast.CompositeLit)
				if !ok || x.text(cl.Type) != T {
					return true
				}
				ctors++
				param := ""
				for _, p := range x.params(f.decl.Type) {
					if p[1] == "*slog.HandlerOptions" {
						param = p[0]
					}
				}
				if param == "" || !lgIdent(lgField(cl, optsField), param) {
					ctorOK = false
					return true
				}
				// the parameter is only replaced when it is nil
				lgWalk(f.decl.Body, func(k ast.Node, stack []ast.Node) bool {
					as, ok := k.(*ast.AssignStmt)
					if !ok {
						return true
					}
					for _, l := range as.Lhs {
						if !lgIdent(l, param) {
							continue
						}
						guarded := false
						for _, a := range stack {
							if is, ok := a.(*ast.IfStmt); ok {
								if be, ok := is.Cond.(*ast.BinaryExpr); ok && be.Op == token.EQL && lgIdent(be.X, param) && lgIdent(be.Y, "nil") {
									guarded = true
								}
							}
						}
						if !guarded {
							ctorOK = false
						}
					}
					return true
				})
				return true
			})
		}
		F.consoleCtorStoresOpts = ctorOK && ctors > 0
	})
}

// structFields calls f for every field of the struct type T declared in the package.
func (x *lgX) structFields(T string, f func(name, typ string)) {
	for _, st := range x.structs {
		if st.name != T {
			continue
		}
		for _, fl := range st.st.Fields.List {
			for _, n := range fl.Names {
				f(n.Name, x.text(fl.Type))
			}
		}
	}
}

// ---------------------------------------------------------------- constructors

func (x *lgX) constructorFacts(F *lgFacts, formats []string) {
	isFormats := func(t string) bool {
		for _, f := range formats {
			if f == t {
				return true
			}
		}
		return false
	}
	// package functions that build a formatting handler themselves
	ctorFns := map[string]bool{}
	for _, f := range x.fns {
		if f.recvT != "" {
			continue
		}
		if lgContains(f.decl.Body, func(n ast.Node) bool {
			cl, ok := n.(*ast.CompositeLit)
			return ok && isFormats(x.text(cl.Type))
		}) {
			ctorFns[f.name] = true
		}
	}
	redacting := func(e ast.Expr) bool {
		cl := lgComposite(e)
		if cl == nil || x.text(cl.Type) != "slog.HandlerOptions" {
			return false
		}
		if _, ok := e.(*ast.UnaryExpr); !ok {
			return false
		}
		_, c := lgMethodCall(lgFieldOrNil(cl, "ReplaceAttr"), "buildReplaceAttr")
		return c != nil
	}
	for _, f := range x.fns {
		fname := f.name
		if f.recvT != "" {
			fname = f.recvT + "." + f.name
		}
		lgWalk(f.decl.Body, func(n ast.Node, _ []ast.Node) bool {
			switch v := n.(type) {
			case *ast.CompositeLit:
				// a formatting handler built by hand outside its own type and constructor
				if isFormats(x.text(v.Type)) && !isFormats(f.recvT) && !(f.recvT == "" && ctorFns[f.name]) {
					F.constructors = append(F.constructors, [3]string{fname, "&" + x.text(v.Type) + "{}", "false"})
				}
			case *ast.CallExpr:
				name := ""
				if s, ok := v.Fun.(*ast.SelectorExpr); ok && lgIdent(s.X, "slog") && strings.HasPrefix(s.Sel.Name, "New") && strings.HasSuffix(s.Sel.Name, "Handler") {
					name = "slog." + s.Sel.Name
				} else if id, ok := v.Fun.(*ast.Ident); ok && ctorFns[id.Name] {
					name = id.Name
				}
				if name == "" {
					return true
				}
				ok := false
				if len(v.Args) == 2 {
					arg := v.Args[1]
					if redacting(arg) {
						ok = true
					} else if nm := lgIdentName(arg); nm != "" && nm != "nil" {
						// a local assigned exactly once in this function, never modified through a field write
						var rhs []ast.Expr
						tampered := false
						lgWalk(f.decl.Body, func(k ast.Node, _ []ast.Node) bool {
							switch a := k.(type) {
							case *ast.AssignStmt:
								for j, l := range a.Lhs {
									if lgIdent(l, nm) {
										if len(a.Rhs) == len(a.Lhs) {
											rhs = append(rhs, a.Rhs[j])
										} else {
											rhs = append(rhs, nil)
										}
									}
									if s, ok := l.(*ast.SelectorExpr); ok && lgIdent(s.X, nm) {
										tampered = true
									}
								}
							case *ast.ValueSpec:
								for j, l := range a.Names {
									if l.Name == nm {
										if j < len(a.Values) {
											rhs = append(rhs, a.Values[j])
										} else {
											rhs = append(rhs, nil)
										}
									}
								}
							case *ast.UnaryExpr:
								if a.Op == token.AND && lgIdent(a.X, nm) {
									tampered = true
								}
							}
							return true
						})
						// a parameter of the enclosing function is not a local
						for _, p := range x.params(f.decl.Type) {
							if p[0] == nm {
								tampered = true
							}
						}
						ok = len(rhs) == 1 && rhs[0] != nil && redacting(rhs[0]) && !tampered
					}
				}
				F.constructors = append(F.constructors, [3]string{fname, name, strconv.FormatBool(ok)})
			}
			return true
		})
	}
	sort.SliceStable(F.constructors, func(i, j int) bool {
		a, b := F.constructors[i], F.constructors[j]
		if a[0] != b[0] {
			return a[0] < b[0]
		}
		return a[1] < b[1]
	})
}

func lgFieldOrNil(c *ast.CompositeLit, key string) ast.Expr {
	if v := lgField(c, key); v != nil {
		return v
	}
	return &ast.BadExpr{}
}

// ---------------------------------------------------------------- buildReplaceAttr

func (x *lgX) replaceAttrFacts(F *lgFacts) {
	ms := x.methodsNamed("buildReplaceAttr")
	if len(ms) != 1 {
		x.fail(nil, "expected exactly one method buildReplaceAttr, found %d", len(ms))
	}
	m := ms[0]
	recv := m.recvN
	var lit *ast.FuncLit
	if len(m.decl.Body.List) == 1 {
		if rs, ok := m.decl.Body.List[0].(*ast.ReturnStmt); ok && len(rs.Results) == 1 {
			lit, _ = rs.Results[0].(*ast.FuncLit)
		}
	}
	if lit == nil {
		x.fail(m.decl, "buildReplaceAttr is not a single `return func(…) …`")
	}
	attr := ""
	for _, p := range x.params(lit.Type) {
		if p[1] == "slog.Attr" {
			attr = p[0]
		}
	}
	if attr == "" || attr == "_" {
		x.fail(lit, "the closure has no named slog.Attr parameter")
	}
	isKey := func(e ast.Expr) bool {
		o, ok := lgSelEnds(e, "Key")
		return ok && lgIdent(o, attr)
	}
	// a call through a field of the receiver: the user replacer
	userCall := func(n ast.Node) bool {
		c, ok := n.(*ast.CallExpr)
		if !ok {
			return false
		}
		_, ok = lgRecvField(c.Fun, recv)
		return ok
	}
	var switchEnd token.Pos
	switchOK, switches := false, 0
	var markers []string
	for _, s := range lit.Body.List {
		switch v := s.(type) {
		case *ast.SwitchStmt:
			if v.Init == nil && v.Tag != nil && isKey(v.Tag) {
				switches++
				good := true
				for _, cl := range v.Body.List {
					cc := cl.(*ast.CaseClause)
					if cc.List == nil {
						good = false // a default clause
						continue
					}
					for _, e := range cc.List {
						k, ok := x.strValue(e)
						if !ok {
							x.fail(e, "case key that is not a string constant: %s", x.text(e))
						}
						F.sensitiveCaseKeys = append(F.sensitiveCaseKeys, k)
					}
					// body: exactly `return slog.String(<a>.Key, <marker>)`
					bodyOK := false
					if len(cc.Body) == 1 {
						if rs, ok := cc.Body[0].(*ast.ReturnStmt); ok && len(rs.Results) == 1 {
							if c := lgCallOf(rs.Results[0]); c != nil && x.text(c.Fun) == "slog.String" && len(c.Args) == 2 && isKey(c.Args[0]) {
								if mk, ok := x.strValue(c.Args[1]); ok {
									markers = append(markers, mk)
									bodyOK = true
								}
							}
						}
					}
					if !bodyOK {
						good = false
					}
				}
				if switches == 1 {
					switchOK = good && len(v.Body.List) > 0
					switchEnd = v.End()
					if switchOK {
						F.replaceAttrShape = append(F.replaceAttrShape, "switch-key")
					} else {
						F.replaceAttrShape = append(F.replaceAttrShape, "switch-key-irregular")
					}
				} else {
					F.replaceAttrShape = append(F.replaceAttrShape, "switch-key-again")
				}
			} else {
				F.replaceAttrShape = append(F.replaceAttrShape, "switch-other")
			}
		case *ast.IfStmt:
			shape := "if-other"
			if be, ok := v.Cond.(*ast.BinaryExpr); ok && be.Op == token.NEQ && lgIdent(be.Y, "nil") && v.Init == nil && v.Else == nil {
				if fld, ok := lgRecvField(be.X, recv); ok && len(v.Body.List) == 1 {
					if rs, ok := v.Body.List[0].(*ast.ReturnStmt); ok && len(rs.Results) == 1 {
						if c := lgCallOf(rs.Results[0]); c != nil {
							if f2, ok := lgRecvField(c.Fun, recv); ok && f2 == fld && len(c.Args) > 0 && lgIdent(c.Args[len(c.Args)-1], attr) {
								shape = "if-user-replacer-return"
							}
						}
					}
				}
			}
			F.replaceAttrShape = append(F.replaceAttrShape, shape)
		case *ast.ReturnStmt:
			if len(v.Results) == 1 && lgIdent(v.Results[0], attr) {
				F.replaceAttrShape = append(F.replaceAttrShape, "return-attr")
			} else {
				F.replaceAttrShape = append(F.replaceAttrShape, "return-other")
			}
		default:
			F.replaceAttrShape = append(F.replaceAttrShape, strings.TrimPrefix(fmt.Sprintf("%T", s), "*ast."))
		}
	}
	for _, mk := range markers {
		if mk != markers[0] {
			x.fail(lit, "the redacting clauses return different markers")
		}
	}
	if len(markers) > 0 {
		F.markerLiteral = markers[0]
	}
	// the switch comes first: nothing before it returns, every user-replacer call and every write to the
	// attribute lies behind it
	before := true
	userCalls := 0
	for _, s := range lit.Body.List {
		if _, ok := s.(*ast.SwitchStmt); ok && s.End() == switchEnd {
			break
		}
		before = false // some statement precedes the switch
	}
	lgWalk(lit.Body, func(n ast.Node, _ []ast.Node) bool {
		if userCall(n) {
			userCalls++
			if !(switchEnd.IsValid() && n.Pos() > switchEnd) {
				before = false
			}
		}
		return true
	})
	F.sensitiveSwitchReturnsBeforeUser = switchOK && switches == 1 && before && userCalls > 0
}

// ---------------------------------------------------------------- the buffering Handle

func (x *lgX) bufferingHandleFacts(F *lgFacts, info *lgHandleInfo) {
	fn := info.fn
	recv := fn.recvN
	body := fn.decl.Body
	w := x.lockWalk(body)
	recParam := ""
	for _, p := range x.params(fn.decl.Type) {
		if p[1] == "slog.Record" {
			recParam = p[0]
		}
	}
	var reads, appends, delegs []ast.Node
	var lits []*ast.CompositeLit
	ownersOK := true
	lgWalk(body, func(n ast.Node, stack []ast.Node) bool {
		switch v := n.(type) {
		case *ast.SelectorExpr:
			if v.Sel.Name == "buffering" {
				reads = append(reads, v)
				if x.text(v.X) != w.owner {
					ownersOK = false
				}
			}
		case *ast.AssignStmt:
			if c := x.appendToField(v, "records"); c != nil {
				appends = append(appends, v)
				o, _ := lgSelEnds(v.Lhs[0], "records")
				if x.text(o) != w.owner {
					ownersOK = false
				}
				for _, a := range c.Args[1:] {
					lits = append(lits, lgComposite(a))
				}
			}
		case *ast.CallExpr:
			if _, ok := lgDelegates(v, recv); ok {
				delegs = append(delegs, v)
			}
		}
		return true
	})
	all := func(ns []ast.Node, want bool) bool {
		for _, n := range ns {
			if w.held(n) != want {
				return false
			}
		}
		return len(ns) > 0
	}
	F.handleTestsBufferingUnderLock = all(reads, true) && all(appends, true) && ownersOK && !w.leak && !w.deferred
	keeps, cloned := len(lits) > 0, len(lits) > 0
	for _, cl := range lits {
		if cl == nil {
			keeps, cloned = false, false
			continue
		}
		if f, ok := lgRecvField(lgFieldOrNil(cl, "handler"), recv); !ok || f != info.delegField {
			keeps = false
		}
		if o, c := lgMethodCall(lgFieldOrNil(cl, "record"), "Clone"); c == nil || !lgIdent(o, recParam) {
			cloned = false
		}
	}
	F.bufferedRecordKeepsHandler = keeps
	F.bufferedRecordCloned = cloned
	F.passThroughAfterUnlock = all(delegs, false) && !w.deferred
}

// ---------------------------------------------------------------- flush

func lgIsFalseAssign(n ast.Node) *ast.AssignStmt {
	as, ok := n.(*ast.AssignStmt)
	if !ok || len(as.Lhs) != 1 || len(as.Rhs) != 1 || as.Tok != token.ASSIGN {
		return nil
	}
	if _, ok := lgSelEnds(as.Lhs[0], "buffering"); !ok || !lgIdent(as.Rhs[0], "false") {
		return nil
	}
	return as
}

func lgStackCopy(s []ast.Node) []ast.Node { return append([]ast.Node(nil), s...) }

func (x *lgX) flushFacts(F *lgFacts) {
	var flush *lgFn
	for _, f := range x.fns {
		if lgContains(f.decl.Body, func(n ast.Node) bool { return lgIsFalseAssign(n) != nil }) {
			if flush != nil {
				x.fail(f.decl, "two functions switch buffering off: %s and %s", flush.name, f.name)
			}
			flush = f
		}
	}
	if flush == nil {
		x.fail(nil, "no function assigns `.buffering = false`")
	}
	body := flush.decl.Body
	w := x.lockWalk(body)
	var offs, takes, resets []*ast.AssignStmt
	stacks := map[ast.Node][]ast.Node{}
	lgWalk(body, func(n ast.Node, stack []ast.Node) bool {
		as, ok := n.(*ast.AssignStmt)
		if !ok {
			return true
		}
		stacks[n] = lgStackCopy(stack)
		if lgIsFalseAssign(as) != nil {
			offs = append(offs, as)
			return true
		}
		if len(as.Lhs) == 1 && len(as.Rhs) == 1 {
			if _, ok := lgSelEnds(as.Rhs[0], "records"); ok && lgIdentName(as.Lhs[0]) != "" {
				takes = append(takes, as)
			}
			if _, ok := lgSelEnds(as.Lhs[0], "records"); ok && x.appendToField(as, "records") == nil {
				resets = append(resets, as)
			}
		}
		return true
	})
	if len(takes) != 1 {
		x.fail(flush.decl, "expected exactly one `<local> := ….records` in %s, found %d", flush.name, len(takes))
	}
	take := takes[0]
	batch := lgIdentName(take.Lhs[0])
	takeOwner, _ := lgSelEnds(take.Rhs[0], "records")
	// the enclosing unconditional loop
	var loop *ast.ForStmt
	for _, a := range stacks[take] {
		if fs, ok := a.(*ast.ForStmt); ok && fs.Init == nil && fs.Cond == nil && fs.Post == nil {
			loop = fs
		}
	}
	inLoop := func(n ast.Node) bool {
		if loop == nil {
			return false
		}
		return n.Pos() >= loop.Body.Pos() && n.End() <= loop.Body.End()
	}
	// replay loops: `for …, br := range <batch>` containing a Handle call
	var replays []*ast.RangeStmt
	lgWalk(body, func(n ast.Node, _ []ast.Node) bool {
		if rs, ok := n.(*ast.RangeStmt); ok && lgIdent(rs.X, batch) && lgContains(rs.Body, func(m ast.Node) bool {
			e, ok := m.(ast.Expr)
			if !ok {
				return false
			}
			_, c := lgMethodCall(e, "Handle")
			return c != nil
		}) {
			replays = append(replays, rs)
		}
		return true
	})
	if len(replays) != 1 {
		x.fail(flush.decl, "expected exactly one replay loop over the batch in %s, found %d", flush.name, len(replays))
	}
	replay := replays[0]

	// flushLoops
	if loop != nil {
		direct := false
		for _, s := range body.List {
			if s == ast.Stmt(loop) {
				direct = true
			}
		}
		breaks := false
		lgWalk(loop.Body, func(n ast.Node, stack []ast.Node) bool {
			if bs, ok := n.(*ast.BranchStmt); ok && (bs.Tok == token.BREAK || bs.Tok == token.GOTO) {
				if bs.Label != nil || bs.Tok == token.GOTO {
					breaks = true
					return true
				}
				nested := false
				for _, a := range stack {
					switch a.(type) {
					case *ast.ForStmt, *ast.RangeStmt, *ast.SwitchStmt, *ast.TypeSwitchStmt, *ast.SelectStmt:
						nested = true
					}
				}
				if !nested {
					breaks = true
				}
			}
			return true
		})
		allOffInside := len(offs) > 0
		for _, o := range offs {
			allOffInside = allOffInside && inLoop(o)
		}
		F.flushLoops = direct && !breaks && inLoop(replay) && allOffInside
	}

	// bufferingOffOnlyWhenEmpty
	if len(offs) == 1 {
		off := offs[0]
		st := stacks[off]
		var guard *ast.IfStmt
		for i := len(st) - 1; i >= 0; i-- {
			if is, ok := st[i].(*ast.IfStmt); ok {
				if i+1 < len(st) && st[i+1] == ast.Node(is.Body) {
					guard = is
				}
				break
			}
		}
		if guard != nil && guard.Init == nil {
			condOK := false
			if be, ok := guard.Cond.(*ast.BinaryExpr); ok && be.Op == token.EQL {
				if c := lgCallOf(be.X); c != nil && lgIdent(c.Fun, "len") && len(c.Args) == 1 {
					if bl, ok := be.Y.(*ast.BasicLit); ok && bl.Value == "0" {
						if lgIdent(c.Args[0], batch) {
							condOK = true
						} else if o, ok := lgSelEnds(c.Args[0], "records"); ok && x.text(o) == w.owner {
							condOK = true
						}
					}
				}
			}
			returns := false
			if n := len(guard.Body.List); n > 0 {
				_, returns = guard.Body.List[n-1].(*ast.ReturnStmt)
			}
			offOwner, _ := lgSelEnds(off.Lhs[0], "buffering")
			F.bufferingOffOnlyWhenEmpty = condOK && returns && w.sameSection(take, off) && w.sameSection(take, guard.Cond) &&
				take.Pos() < guard.Pos() && x.text(offOwner) == w.owner && !w.leak
		}
	}

	// batchTakenUnderLock
	resetsOK := len(resets) > 0
	for _, r := range resets {
		o, _ := lgSelEnds(r.Lhs[0], "records")
		resetsOK = resetsOK && w.sameSection(take, r) && x.text(o) == w.owner && r.Pos() > take.End()
	}
	F.batchTakenUnderLock = w.held(take) && x.text(takeOwner) == w.owner && resetsOK

	// the replay
	F.replayAfterUnlock = !w.held(replay) && !w.held(replay.Body) && !w.deferred && replay.Pos() > take.End()
	F.replayContinuesOnError = !lgContains(replay.Body, func(n ast.Node) bool {
		switch v := n.(type) {
		case *ast.ReturnStmt:
			return true
		case *ast.BranchStmt:
			return v.Tok != token.CONTINUE || v.Label != nil
		case *ast.CallExpr:
			return lgIdent(v.Fun, "panic")
		}
		return false
	})
	elem := ""
	if replay.Value != nil {
		elem = lgIdentName(replay.Value)
	}
	through, n := true, 0
	lgWalk(replay.Body, func(m ast.Node, _ []ast.Node) bool {
		e, ok := m.(ast.Expr)
		if !ok {
			return true
		}
		if o, c := lgMethodCall(e, "Handle"); c != nil {
			n++
			h, ok := lgSelEnds(o, "handler")
			if !ok || elem == "" || !lgIdent(h, elem) {
				through = false
			}
		}
		return true
	})
	F.replayThroughRecordHandler = through && n > 0
}

// holdsMu: the first two statements of (T).name are `<recv>.mu.Lock()` and `defer <recv>.mu.Unlock()`.
func (x *lgX) holdsMu(T, name string) bool {
	f := x.method(T, name)
	l := f.decl.Body.List
	if len(l) < 2 || f.recvN == "" {
		return false
	}
	es, ok := l[0].(*ast.ExprStmt)
	if !ok {
		return false
	}
	o, c := lgMethodCall(es.X, "Lock")
	if c == nil {
		return false
	}
	if fld, ok := lgRecvField(o, f.recvN); !ok || fld != "mu" {
		return false
	}
	ds, ok := l[1].(*ast.DeferStmt)
	if !ok {
		return false
	}
	o, c = lgMethodCall(ds.Call, "Unlock")
	if c == nil {
		return false
	}
	fld, ok := lgRecvField(o, f.recvN)
	return ok && fld == "mu"
}

// ---------------------------------------------------------------- initializeHandler

func (x *lgX) initFacts(F *lgFacts, loggerT, bufT string, delegTs []string) {
	fn := x.method(loggerT, "initializeHandler")
	recv := fn.recvN
	if recv == "" {
		x.fail(fn.decl, "no named receiver")
	}
	// &bufT{… state: <recv>.<field> …}
	wrapsLit := func(e ast.Expr) bool {
		cl := lgComposite(e)
		if cl == nil || x.text(cl.Type) != bufT {
			return false
		}
		_, ok := lgRecvField(lgFieldOrNil(cl, "state"), recv)
		return ok
	}
	assignsTo := func(s ast.Stmt, name string) (direct ast.Expr, nested bool) {
		if as, ok := s.(*ast.AssignStmt); ok {
			for j, l := range as.Lhs {
				if lgIdent(l, name) {
					if len(as.Lhs) == len(as.Rhs) {
						return as.Rhs[j], false
					}
					return &ast.BadExpr{}, false
				}
			}
			return nil, false
		}
		if ds, ok := s.(*ast.DeclStmt); ok {
			_ = ds
			return nil, false // `var x T` gives the zero value; a later assignment decides
		}
		n := lgContains(s, func(k ast.Node) bool {
			as, ok := k.(*ast.AssignStmt)
			if !ok {
				return false
			}
			for _, l := range as.Lhs {
				if lgIdent(l, name) {
					return true
				}
			}
			return false
		})
		return nil, n
	}
	// lastAssign: the value `name` has at statement index idx of block (nil = decided inside a compound statement / unknown)
	lastAssign := func(block []ast.Stmt, idx int, name string) ast.Expr {
		for i := idx - 1; i >= 0; i-- {
			d, nested := assignsTo(block[i], name)
			if nested {
				return nil
			}
			if d != nil {
				return d
			}
		}
		return nil
	}
	// every `<recv>.slogger.Store(v)`
	type store struct {
		block []ast.Stmt
		idx   int
		arg   ast.Expr
	}
	var stores []store
	var visit func(block []ast.Stmt)
	visit = func(block []ast.Stmt) {
		for i, s := range block {
			if es, ok := s.(*ast.ExprStmt); ok {
				if o, c := lgMethodCall(es.X, "Store"); c != nil && len(c.Args) == 1 {
					if f, ok := lgRecvField(o, recv); ok && f == "slogger" {
						stores = append(stores, store{block, i, c.Args[0]})
					}
				}
				continue
			}
			switch v := s.(type) {
			case *ast.IfStmt:
				visit(v.Body.List)
				if eb, ok := v.Else.(*ast.BlockStmt); ok {
					visit(eb.List)
				} else if v.Else != nil {
					visit([]ast.Stmt{v.Else})
				}
			case *ast.BlockStmt:
				visit(v.List)
			default:
				if lgContains(s, func(k ast.Node) bool {
					e, ok := k.(ast.Expr)
					if !ok {
						return false
					}
					o, c := lgMethodCall(e, "Store")
					if c == nil {
						return false
					}
					f, ok := lgRecvField(o, recv)
					return ok && f == "slogger"
				}) {
					x.fail(s, "a store into slogger inside a %T", s)
				}
			}
		}
	}
	visit(fn.decl.Body.List)
	if len(stores) == 0 {
		x.fail(fn.decl, "initializeHandler never stores into slogger")
	}
	// does the logger stored at (block, idx) have a chain that is unconditionally wrapped?
	var loggerWrapped func(block []ast.Stmt, idx int, e ast.Expr, depth int) bool
	loggerWrapped = func(block []ast.Stmt, idx int, e ast.Expr, depth int) bool {
		if depth > 8 || e == nil {
			return false
		}
		if nm := lgIdentName(e); nm != "" {
			// walk back through `v = v.With(…)` (conditional or not) to the `v := slog.New(H)`
			for i := idx - 1; i >= 0; i-- {
				d, nested := assignsTo(block[i], nm)
				if nested {
					// allowed: the nested assignments are all `v = v.With(…)`
					okNested := true
					lgWalk(block[i], func(k ast.Node, _ []ast.Node) bool {
						if as, ok := k.(*ast.AssignStmt); ok {
							for j, l := range as.Lhs {
								if lgIdent(l, nm) {
									if len(as.Lhs) != len(as.Rhs) {
										okNested = false
									} else if o, c := lgMethodCall(as.Rhs[j], "With"); c == nil || !lgIdent(o, nm) {
										okNested = false
									}
								}
							}
						}
						return true
					})
					if !okNested {
						return false
					}
					continue
				}
				if d == nil {
					continue
				}
				if o, c := lgMethodCall(d, "With"); c != nil && lgIdent(o, nm) {
					continue
				}
				return loggerWrapped(block, i, d, depth+1)
			}
			return false
		}
		c := lgCallOf(e)
		if c == nil || x.text(c.Fun) != "slog.New" || len(c.Args) != 1 {
			return false
		}
		h := c.Args[0]
		if wrapsLit(h) {
			return true
		}
		if nm := lgIdentName(h); nm != "" {
			v := lastAssign(block, idx, nm)
			return v != nil && wrapsLit(v)
		}
		return false
	}
	all := true
	for _, st := range stores {
		if !loggerWrapped(st.block, st.idx, st.arg, 0) {
			all = false
		}
	}
	F.wrapAtConstruction = all

	// older form: `if bh, ok := ….(*bufT); ok && bh.isBuffering() { handler = &bufT{underlying: handler, state: bh.state} }`
	oldForm := false
	lgWalk(fn.decl.Body, func(n ast.Node, _ []ast.Node) bool {
		is, ok := n.(*ast.IfStmt)
		if !ok {
			return true
		}
		as, ok := is.Init.(*ast.AssignStmt)
		if !ok || len(as.Lhs) != 2 || len(as.Rhs) != 1 {
			return true
		}
		ta, ok := as.Rhs[0].(*ast.TypeAssertExpr)
		if !ok || ta.Type == nil || x.text(ta.Type) != "*"+bufT {
			return true
		}
		bh := lgIdentName(as.Lhs[0])
		checks := lgContains(is.Cond, func(k ast.Node) bool {
			switch v := k.(type) {
			case *ast.SelectorExpr:
				return (v.Sel.Name == "isBuffering" || v.Sel.Name == "buffering") && lgContains(v.X, func(m ast.Node) bool { id, ok := m.(*ast.Ident); return ok && id.Name == bh })
			}
			return false
		}) && lgContains(is.Cond, func(k ast.Node) bool { id, ok := k.(*ast.Ident); return ok && id.Name == lgIdentName(as.Lhs[1]) })
		rewraps := lgContains(is.Body, func(k ast.Node) bool {
			a2, ok := k.(*ast.AssignStmt)
			if !ok || len(a2.Rhs) != 1 {
				return false
			}
			cl := lgComposite(a2.Rhs[0])
			if cl == nil || x.text(cl.Type) != bufT {
				return false
			}
			o, ok := lgSelEnds(lgFieldOrNil(cl, "state"), "state")
			return ok && lgIdent(o, bh) && lgIdent(lgFieldOrNil(cl, "underlying"), lgIdentName(a2.Lhs[0]))
		})
		if checks && rewraps {
			oldForm = true
		}
		return true
	})
	F.rewrapsWhileBuffering = F.wrapAtConstruction || oldForm

	// the built-in handlers are wrapped in the delegating (context) handler: a direct statement
	// `h = &<delegT>{underlying: h}` behind every constructor call that assigns to h
	top := fn.decl.Body.List
	ctxOK := false
	for i, s := range top {
		as, ok := s.(*ast.AssignStmt)
		if !ok || len(as.Lhs) != 1 || len(as.Rhs) != 1 {
			continue
		}
		cl := lgComposite(as.Rhs[0])
		if cl == nil {
			continue
		}
		isDeleg := false
		for _, t := range delegTs {
			if x.text(cl.Type) == t {
				isDeleg = true
			}
		}
		h := lgIdentName(as.Lhs[0])
		if !isDeleg || h == "" || len(cl.Elts) != 1 || !lgIdent(lgFieldOrNil(cl, "underlying"), h) {
			continue
		}
		// every assignment to h from a constructor call lies before; none after it other than wrappers of h itself
		ctorBefore, bad := false, false
		for j, t := range top {
			lgWalk(t, func(k ast.Node, _ []ast.Node) bool {
				a2, ok := k.(*ast.AssignStmt)
				if !ok || len(a2.Lhs) != 1 || len(a2.Rhs) != 1 || !lgIdent(a2.Lhs[0], h) || a2 == as {
					return true
				}
				if c := lgCallOf(a2.Rhs[0]); c != nil {
					if j < i {
						ctorBefore = true
					} else {
						bad = true
					}
					return true
				}
				if c2 := lgComposite(a2.Rhs[0]); c2 != nil && j > i && lgIdent(lgFieldOrNil(c2, "underlying"), h) {
					return true
				}
				if j >= i {
					bad = true
				}
				return true
			})
		}
		if ctorBefore && !bad {
			ctxOK = true
		}
	}
	F.contextHandlerWrapsBuiltins = ctxOK
}

// ---------------------------------------------------------------- Logger.log

func (x *lgX) logFacts(F *lgFacts, loggerT string) {
	fn := x.method(loggerT, "log")
	interest := func(n ast.Node) string {
		found := ""
		ast.Inspect(n, func(k ast.Node) bool {
			if s, ok := k.(*ast.SelectorExpr); ok && found == "" {
				switch s.Sel.Name {
				case "isShuttingDown", "Enabled", "shouldSample", "Log", "LogAttrs", "Handle":
					found = s.Sel.Name
				}
			}
			return found == ""
		})
		return found
	}
	for _, s := range fn.decl.Body.List {
		switch v := s.(type) {
		case *ast.IfStmt:
			name := interest(v)
			bare := v.Init == nil && v.Else == nil && len(v.Body.List) == 1
			if bare {
				rs, ok := v.Body.List[0].(*ast.ReturnStmt)
				bare = ok && len(rs.Results) == 0
			}
			if !bare {
				F.logOrder = append(F.logOrder, "?if "+x.text(v.Cond))
				continue
			}
			cond := v.Cond
			neg := false
			if u, ok := cond.(*ast.UnaryExpr); ok && u.Op == token.NOT {
				neg, cond = true, u.X
			}
			c := lgCallOf(cond)
			switch {
			case c == nil:
				F.logOrder = append(F.logOrder, "?if "+x.text(v.Cond))
			case name == "isShuttingDown" && !neg && x.text(c.Fun) == fn.recvN+".isShuttingDown.Load":
				F.logOrder = append(F.logOrder, "isShuttingDown")
			case name == "Enabled" && neg:
				if _, cc := lgMethodCall(c, "Enabled"); cc != nil {
					F.logOrder = append(F.logOrder, "Enabled")
				} else {
					F.logOrder = append(F.logOrder, "?if "+x.text(v.Cond))
				}
			case name == "shouldSample" && neg:
				if o, cc := lgMethodCall(c, "shouldSample"); cc != nil && lgIdent(o, fn.recvN) {
					F.logOrder = append(F.logOrder, "shouldSample")
				} else {
					F.logOrder = append(F.logOrder, "?if "+x.text(v.Cond))
				}
			default:
				F.logOrder = append(F.logOrder, "?if "+x.text(v.Cond))
			}
		case *ast.ExprStmt:
			if _, c := lgMethodCall(v.X, "Log"); c != nil {
				F.logOrder = append(F.logOrder, "Log")
			} else if interest(v) != "" {
				F.logOrder = append(F.logOrder, "?"+x.text(v))
			}
		case *ast.AssignStmt, *ast.DeclStmt:
			if interest(v) != "" {
				F.logOrder = append(F.logOrder, "?"+x.text(v))
			}
		default:
			F.logOrder = append(F.logOrder, "?"+strings.TrimPrefix(fmt.Sprintf("%T", s), "*ast."))
		}
	}
	ok := true
	for _, m := range []string{"Debug", "Info", "Warn", "Error"} {
		f := x.method(loggerT, m)
		one := false
		if len(f.decl.Body.List) == 1 {
			if es, isE := f.decl.Body.List[0].(*ast.ExprStmt); isE {
				if o, c := lgMethodCall(es.X, "log"); c != nil && lgIdent(o, f.recvN) {
					one = true
				}
			}
		}
		ok = ok && one
	}
	F.levelMethodsUseLog = ok
}

// ---------------------------------------------------------------- rendering

func lgStrList(l []string) string {
	q := make([]string, len(l))
	for i, s := range l {
		q[i] = leanStr(s)
	}
	return "[" + strings.Join(q, ", ") + "]"
}

// genLogging renders Gen/Logging.lean. It does not panic: problems end up in `extractError`.
func genLogging(repo string) string {
	F := &lgFacts{}
	x := &lgX{}
	func() {
		defer func() {
			if r := recover(); r != nil {
				if e, ok := r.(lgErr); ok {
					x.errs = append(x.errs, "parse: "+e.msg)
				} else {
					x.errs = append(x.errs, "parse: internal: "+fmt.Sprint(r))
				}
			}
		}()
		x = lgParse(repo)
	}()
	if len(x.fns) > 0 {
		var infos []*lgHandleInfo
		x.guard("handleTypes", func() {
			for _, f := range x.methodsNamed("Handle") {
				ps, rs := x.params(f.decl.Type), x.results(f.decl.Type)
				if len(ps) != 2 || ps[1][1] != "slog.Record" || len(rs) != 1 || rs[0] != "error" {
					continue
				}
				in := x.classifyHandle(f)
				infos = append(infos, in)
				F.handleTypes = append(F.handleTypes, [2]string{f.recvT, in.class})
			}
			sort.Slice(F.handleTypes, func(i, j int) bool { return F.handleTypes[i][0] < F.handleTypes[j][0] })
		})
		var formats, delegs []string
		var buf *lgHandleInfo
		nbuf := 0
		for _, in := range infos {
			switch in.class {
			case "formats":
				formats = append(formats, in.fn.recvT)
			case "delegates":
				delegs = append(delegs, in.fn.recvT)
			case "buffers":
				buf = in
				nbuf++
			}
		}
		x.guard("console handler", func() {
			if len(formats) != 1 {
				x.fail(nil, "expected exactly one handler type that formats records itself, found %d", len(formats))
			}
			x.console(F, formats[0])
		})
		x.guard("constructors", func() { x.constructorFacts(F, formats) })
		x.guard("buildReplaceAttr", func() { x.replaceAttrFacts(F) })
		x.guard("buffering Handle", func() {
			if nbuf != 1 {
				x.fail(nil, "expected exactly one Handle that appends to .records and otherwise delegates, found %d", nbuf)
			}
			x.bufferingHandleFacts(F, buf)
		})
		x.guard("flush", func() { x.flushFacts(F) })
		loggerT := ""
		x.guard("Logger type", func() {
			ms := x.methodsNamed("initializeHandler")
			if len(ms) != 1 {
				x.fail(nil, "expected exactly one method initializeHandler, found %d", len(ms))
			}
			loggerT = ms[0].recvT
		})
		if loggerT != "" {
			x.guard("FlushBuffer", func() { F.flushHoldsLoggerMu = x.holdsMu(loggerT, "FlushBuffer") })
			x.guard("StartBuffering", func() { F.startHoldsLoggerMu = x.holdsMu(loggerT, "StartBuffering") })
			x.guard("SetLevel", func() { F.setLevelHoldsLoggerMu = x.holdsMu(loggerT, "SetLevel") })
			x.guard("initializeHandler", func() {
				if buf == nil {
					x.fail(nil, "no buffering handler type")
				}
				x.initFacts(F, loggerT, buf.fn.recvT, delegs)
			})
			x.guard("Logger.log", func() { x.logFacts(F, loggerT) })
		}
	}

	var b strings.Builder
	b.WriteString("/- REGENERATED by extract/ (logging.go) from logging/*.go on every run — do not edit. -/\nnamespace Rivaas.Gen.Logging\n\n")
	fmt.Fprintf(&b, "/-- why the facts could not be extracted completely (\"\" = they were) -/\ndef extractError : String := %s\n\n", leanStr(strings.Join(x.errs, "; ")))
	var hts []string
	for _, h := range F.handleTypes {
		hts = append(hts, "("+leanStr(h[0])+", "+leanStr(h[1])+")")
	}
	fmt.Fprintf(&b, "/-- every type with a method `Handle(ctx, slog.Record) error` and what its body does (sorted by type name) -/\ndef handleTypes : List (String × String) := [%s]\n\n", strings.Join(hts, ", "))
	bl := func(name, doc string, v bool) {
		fmt.Fprintf(&b, "/-- %s -/\ndef %s : Bool := %v\n", doc, name, v)
	}
	b.WriteString("/-! the handler that formats records itself (console) -/\n")
	bl("consoleHandleReplacesCallAttrs", "Handle: every printed attribute is a pre-bound one or the ok result of the receiver's replaceAttr; the record's attributes are only handed to replaceAttr", F.consoleHandleReplacesCallAttrs)
	bl("consoleWithAttrsReplaces", "WithAttrs: apart from the spread of the old attrs, only ok results of replaceAttr on the elements of the parameter are appended", F.consoleWithAttrsReplaces)
	bl("consoleReplaceRecursesGroups", "replaceAttr: the KindGroup branch calls the method itself for every member", F.consoleReplaceRecursesGroups)
	bl("consoleReplaceCallsOption", "replaceAttr: behind the group branch, `opts.ReplaceAttr` is applied to the attribute when it is not nil", F.consoleReplaceCallsOption)
	bl("consoleReplaceNoEarlyReturn", "replaceAttr: no return skips the group recursion or the option call", F.consoleReplaceNoEarlyReturn)
	bl("consoleCtorStoresOpts", "the constructor stores the options it is given (replaced only when nil)", F.consoleCtorStoresOpts)
	bl("consoleDerivedKeepOpts", "WithAttrs / WithGroup hand the receiver's options on", F.consoleDerivedKeepOpts)
	var cs []string
	for _, c := range F.constructors {
		cs = append(cs, "("+leanStr(c[0])+", "+leanStr(c[1])+", "+c[2]+")")
	}
	fmt.Fprintf(&b, "\n/-- every construction of a formatting handler: enclosing function, constructor, whether its options are\n    `&slog.HandlerOptions{… ReplaceAttr: ….buildReplaceAttr() …}` (directly or through a local assigned once) -/\ndef constructors : List (String × String × Bool) := [%s]\n\n", strings.Join(cs, ", "))
	fmt.Fprintf(&b, "/-- top-level statements of the closure buildReplaceAttr returns -/\ndef replaceAttrShape : List String := %s\n", lgStrList(F.replaceAttrShape))
	fmt.Fprintf(&b, "def sensitiveCaseKeys : List String := %s\n", lgStrList(F.sensitiveCaseKeys))
	fmt.Fprintf(&b, "def markerLiteral : String := %s\n", leanStr(F.markerLiteral))
	bl("sensitiveSwitchReturnsBeforeUser", "the `switch <a>.Key` whose clauses return `slog.String(<a>.Key, marker)` is the first statement and precedes every call of the user replacer", F.sensitiveSwitchReturnsBeforeUser)
	b.WriteString("\n/-! the buffering Handle -/\n")
	bl("handleTestsBufferingUnderLock", "`.buffering` is read and `.records` appended to only between Lock and Unlock of the state's mutex", F.handleTestsBufferingUnderLock)
	bl("bufferedRecordKeepsHandler", "the buffered record's `handler:` is the receiver's underlying handler", F.bufferedRecordKeepsHandler)
	bl("bufferedRecordCloned", "`record: r.Clone()`", F.bufferedRecordCloned)
	bl("passThroughAfterUnlock", "the delegating Handle call runs with the mutex released", F.passThroughAfterUnlock)
	b.WriteString("\n/-! the function that switches buffering off (flush) -/\n")
	bl("flushLoops", "the batch is taken and replayed inside an unconditional `for { }` that is only left by return", F.flushLoops)
	bl("bufferingOffOnlyWhenEmpty", "`.buffering = false` only inside `if len(records) == 0 { … return }`, in the critical section that read the records", F.bufferingOffOnlyWhenEmpty)
	bl("batchTakenUnderLock", "the records are read into a local and reset in one critical section", F.batchTakenUnderLock)
	bl("replayAfterUnlock", "the replay loop runs with the mutex released", F.replayAfterUnlock)
	bl("replayContinuesOnError", "no return / break inside the replay loop", F.replayContinuesOnError)
	bl("replayThroughRecordHandler", "each record is replayed through its own `handler` field", F.replayThroughRecordHandler)
	bl("flushHoldsLoggerMu", "FlushBuffer starts with `l.mu.Lock(); defer l.mu.Unlock()`", F.flushHoldsLoggerMu)
	bl("startHoldsLoggerMu", "StartBuffering starts with `l.mu.Lock(); defer l.mu.Unlock()`", F.startHoldsLoggerMu)
	bl("setLevelHoldsLoggerMu", "SetLevel starts with `l.mu.Lock(); defer l.mu.Unlock()`", F.setLevelHoldsLoggerMu)
	b.WriteString("\n/-! initializeHandler -/\n")
	bl("wrapAtConstruction", "every logger stored into `slogger` is `slog.New` of a chain unconditionally wrapped in the buffering handler on a state field of the Logger", F.wrapAtConstruction)
	bl("rewrapsWhileBuffering", "that, or the older form: the live buffering handler's state is re-used for the rebuilt chain", F.rewrapsWhileBuffering)
	bl("contextHandlerWrapsBuiltins", "the built-in handler is wrapped in the delegating context handler", F.contextHandlerWrapsBuiltins)
	b.WriteString("\n/-! Logger.log -/\n")
	fmt.Fprintf(&b, "/-- the early-return checks and the final call, in source order -/\ndef logOrder : List String := %s\n", lgStrList(F.logOrder))
	bl("levelMethodsUseLog", "Debug / Info / Warn / Error are one call of `log` each", F.levelMethodsUseLog)
	var BF lgBatchFacts
	if len(x.fns) > 0 {
		x.guard("BatchLogger", func() { BF = x.batchFacts() })
	}
	batchText := BF.lean()
	if n := len(x.errs); n > 0 && strings.HasPrefix(x.errs[n-1], "BatchLogger") {
		// (the error list was rendered above: a failure here is reported through its own definition)
		batchText += "def batchExtractError : String := " + leanStr(x.errs[n-1]) + "\n"
	} else {
		batchText += "def batchExtractError : String := \"\"\n"
	}
	b.WriteString(batchText)
	b.WriteString("\nend Rivaas.Gen.Logging\n")
	return b.String()
}
