package main

// Gen/Proxies.lean (C18) — structural facts of router/proxies.go (+ IsLocalhost in router/request.go) that
// Model/RealIP.lean relies on, located by structure (callee names, field names, statement shapes), never by the
// names of locals:
//   * Context.ClientIP: the order of its decision steps (peer from RemoteAddr, nil-configuration return, the trust
//     gate on the PEER returning the peer, the loop over the configured headers, the fallback to the peer), how many
//     request-header reads come before the gate, and the arms of the header switch (label, header read, function);
//   * lastUntrustedXFF: loop direction, initial values of the three walk variables (by role: the one incremented =
//     hops, the one assigned the loop index = boundary, the one assigned true = seen), the skip of unparsable items,
//     the statement order of the trusted and of the untrusted branch (both layouts: if/else and early continue),
//     the hop test as conjuncts, the tail (item at the boundary, then leftmost item, then "");
//   * compileProxies: default header list, the maxHops normalisation, fail-fast on an invalid CIDR;
//   * isTrusted, parseOneIP, splitAndTrim, clientIPFromRemoteAddr: their statement shapes;
//   * IsLocalhost: the literal table and the prefixes, and that it is computed from ClientIP() only.
// Tie/C18Proxies.lean interprets the extracted branches and proves that Model/RealIP.lean computes the same.
//
// This generator never makes the extractor exit: what it does not recognise is recorded in `extractProblem`
// (and the fact it was computing keeps a sentinel), so only Tie/C18Proxies.lean stops building.

import (
	"fmt"
	"go/ast"
	"go/token"
	"path/filepath"
	"strconv"
	"strings"
)

type pxErr struct{ msg string }

func pxFail(n ast.Node, format string, a ...any) {
	where := ""
	if n != nil && n.Pos().IsValid() {
		p := fset.Position(n.Pos())
		where = fmt.Sprintf("%s:%d: ", filepath.Base(p.Filename), p.Line)
	}
	panic(pxErr{where + fmt.Sprintf(format, a...)})
}

type pxGen struct {
	errs []string
	b    strings.Builder
}

func (g *pxGen) guard(what string, sentinel string, f func() string) {
	out := sentinel
	func() {
		defer func() {
			if r := recover(); r != nil {
				switch e := r.(type) {
				case pxErr:
					g.errs = append(g.errs, what+": "+e.msg)
				case fatalErr:
					g.errs = append(g.errs, what+": "+e.msg)
				default:
					g.errs = append(g.errs, what+": internal: "+fmt.Sprint(r))
				}
			}
		}()
		out = f()
	}()
	g.b.WriteString(out)
}

func pxStrs(l []string) string {
	q := make([]string, len(l))
	for i, s := range l {
		q[i] = leanStr(s)
	}
	return "[" + strings.Join(q, ", ") + "]"
}

func pxCallName(e ast.Expr) (string, *ast.CallExpr) {
	c, ok := e.(*ast.CallExpr)
	if !ok {
		return "", nil
	}
	switch f := c.Fun.(type) {
	case *ast.Ident:
		return f.Name, c
	case *ast.SelectorExpr:
		return f.Sel.Name, c
	}
	return "", c
}

func pxUnparen(e ast.Expr) ast.Expr {
	for {
		p, ok := e.(*ast.ParenExpr)
		if !ok {
			return e
		}
		e = p.X
	}
}

// pxFindCall returns the first call of the given callee name inside n (outside function literals).
func pxFindCall(n ast.Node, name string) *ast.CallExpr {
	var found *ast.CallExpr
	ast.Inspect(n, func(m ast.Node) bool {
		if found != nil {
			return false
		}
		if _, ok := m.(*ast.FuncLit); ok {
			return false
		}
		if c, ok := m.(*ast.CallExpr); ok {
			if nm, _ := pxCallName(c); nm == name {
				found = c
				return false
			}
		}
		return true
	})
	return found
}

func pxCountCalls(n ast.Node, name string) int {
	k := 0
	ast.Inspect(n, func(m ast.Node) bool {
		if c, ok := m.(*ast.CallExpr); ok {
			if nm, _ := pxCallName(c); nm == name {
				k++
			}
		}
		return true
	})
	return k
}

func pxEndsIn(b *ast.BlockStmt, tok token.Token) bool {
	if b == nil || len(b.List) == 0 {
		return false
	}
	br, ok := b.List[len(b.List)-1].(*ast.BranchStmt)
	return ok && br.Tok == tok
}

func pxReturnsIdent(b *ast.BlockStmt) string {
	if b == nil || len(b.List) == 0 {
		return ""
	}
	r, ok := b.List[len(b.List)-1].(*ast.ReturnStmt)
	if !ok || len(r.Results) != 1 {
		return ""
	}
	if id, ok := r.Results[0].(*ast.Ident); ok {
		return id.Name
	}
	if s, ok := strLit(r.Results[0]); ok {
		return strconv.Quote(s)
	}
	return ""
}

// pxConstStr resolves an identifier to a package-level string constant (typed or not).
func pxConstStr(p *pkg, e ast.Expr) (string, bool) {
	if s, ok := strLit(e); ok {
		return s, true
	}
	id, ok := e.(*ast.Ident)
	if !ok {
		return "", false
	}
	for _, f := range p.files {
		for _, d := range f.Decls {
			gd, ok := d.(*ast.GenDecl)
			if !ok || gd.Tok != token.CONST {
				continue
			}
			for _, sp := range gd.Specs {
				vs := sp.(*ast.ValueSpec)
				for i, n := range vs.Names {
					if n.Name == id.Name && i < len(vs.Values) {
						return strLit(vs.Values[i])
					}
				}
			}
		}
	}
	return "", false
}

// ---------------------------------------------------------------- the walk

type pxWalk struct {
	hops, boundary, seen string // local names by role
	loopVar              string
}

func (w *pxWalk) role(name string) string {
	switch name {
	case w.hops:
		return "hops"
	case w.boundary:
		return "boundary"
	case w.seen:
		return "seen"
	case w.loopVar:
		return "i"
	}
	return name
}

func (w *pxWalk) operand(e ast.Expr) string {
	e = pxUnparen(e)
	switch v := e.(type) {
	case *ast.Ident:
		return w.role(v.Name)
	case *ast.SelectorExpr:
		return v.Sel.Name
	case *ast.BasicLit:
		return v.Value
	}
	return src(e)
}

// conjuncts flattens a && b && c into comparisons "lhs op rhs".
func (w *pxWalk) conjuncts(e ast.Expr) []string {
	e = pxUnparen(e)
	if b, ok := e.(*ast.BinaryExpr); ok {
		if b.Op == token.LAND {
			return append(w.conjuncts(b.X), w.conjuncts(b.Y)...)
		}
		return []string{w.operand(b.X) + " " + b.Op.String() + " " + w.operand(b.Y)}
	}
	return []string{w.operand(e)}
}

func (w *pxWalk) branch(list []ast.Stmt) []string {
	var out []string
	for _, s := range list {
		switch v := s.(type) {
		case *ast.IfStmt:
			if v.Else != nil || v.Init != nil || !pxEndsIn(v.Body, token.BREAK) || len(v.Body.List) != 1 {
				pxFail(v, "walk branch: an if that is not `if <test> { break }`: %s", src(v.Cond))
			}
			out = append(out, "breakIf: "+strings.Join(w.conjuncts(v.Cond), " && "))
		case *ast.AssignStmt:
			if len(v.Lhs) != 1 || v.Tok != token.ASSIGN {
				pxFail(v, "walk branch: unexpected assignment %s", src(v))
			}
			out = append(out, "set: "+w.operand(v.Lhs[0])+" = "+w.operand(v.Rhs[0]))
		case *ast.IncDecStmt:
			out = append(out, "set: "+w.operand(v.X)+" "+v.Tok.String())
		case *ast.BranchStmt:
			if v.Tok == token.CONTINUE {
				continue
			}
			pxFail(v, "walk branch: unexpected %s", v.Tok)
		default:
			pxFail(s, "walk branch: unexpected statement %s", src(s))
		}
	}
	return out
}

// roles determines the three walk variables from what the loop does with them.
func (w *pxWalk) roles(loop *ast.ForStmt) {
	ast.Inspect(loop.Body, func(n ast.Node) bool {
		switch v := n.(type) {
		case *ast.IncDecStmt:
			if id, ok := v.X.(*ast.Ident); ok && v.Tok == token.INC {
				w.hops = id.Name
			}
		case *ast.AssignStmt:
			if len(v.Lhs) == 1 && v.Tok == token.ASSIGN {
				id, ok := v.Lhs[0].(*ast.Ident)
				if !ok {
					return true
				}
				if r, ok := v.Rhs[0].(*ast.Ident); ok {
					switch r.Name {
					case w.loopVar:
						w.boundary = id.Name
					case "true":
						w.seen = id.Name
					}
				}
			}
		}
		return true
	})
	if w.hops == "" || w.boundary == "" || w.seen == "" {
		pxFail(loop, "walk: cannot tell the hop counter / boundary / seen-untrusted variables apart")
	}
}

func genProxies(repo string) string {
	g := &pxGen{}
	var p *pkg
	g.guard("parse", "", func() string { p = parseDir(filepath.Join(repo, "router")); return "" })
	if p == nil {
		p = &pkg{funcs: map[string]*ast.FuncDecl{}, methods: map[string]map[string]*ast.FuncDecl{}}
	}
	fn := func(recv, name string) *ast.FuncDecl {
		var d *ast.FuncDecl
		if recv == "" {
			d = p.funcs[name]
		} else if p.methods[recv] != nil {
			d = p.methods[recv][name]
		}
		if d == nil {
			pxFail(nil, "function %s not found in router/", name)
		}
		return d
	}

	// ---- lastUntrustedXFF
	g.guard("lastUntrustedXFF", `
def loopHeader : String × String × String := ("EXTRACT-PROBLEM", "", "")
def walkInit : List (String × String) := []
def skipUnparsable : Bool := false
def trustedBranch : List String := ["EXTRACT-PROBLEM"]
def untrustedBranch : List String := ["EXTRACT-PROBLEM"]
def walkTail : List String := ["EXTRACT-PROBLEM"]
def splitCall : String := "EXTRACT-PROBLEM"
`, func() string {
		d := fn("", "lastUntrustedXFF")
		w := &pxWalk{}
		var loop *ast.ForStmt
		li := -1
		for i, s := range d.Body.List {
			if f, ok := s.(*ast.ForStmt); ok {
				if loop != nil {
					pxFail(f, "two loops in lastUntrustedXFF")
				}
				loop, li = f, i
			}
		}
		if loop == nil {
			pxFail(d, "no for loop in lastUntrustedXFF")
		}
		init, ok := loop.Init.(*ast.AssignStmt)
		if !ok || len(init.Lhs) != 1 {
			pxFail(loop, "loop init is not a single assignment")
		}
		w.loopVar = init.Lhs[0].(*ast.Ident).Name
		w.roles(loop)
		// the slice walked: the argument of len(...) in the loop init
		partsCall := pxFindCall(init.Rhs[0], "len")
		if partsCall == nil {
			pxFail(init, "loop does not start from len(<parts>) - 1")
		}
		parts := src(partsCall.Args[0])
		norm := func(e ast.Node) string {
			s := src(e)
			s = strings.ReplaceAll(s, parts, "parts")
			return s
		}
		header := fmt.Sprintf("(%s, %s, %s)", leanStr(strings.ReplaceAll(norm(init.Rhs[0]), w.loopVar, "i")),
			leanStr(strings.ReplaceAll(norm(loop.Cond), w.loopVar, "i")), leanStr(strings.ReplaceAll(norm(loop.Post), w.loopVar, "i")))
		// initial values of the role variables (declared before the loop) and how parts is produced
		var inits []string
		splitCall := ""
		for _, s := range d.Body.List[:li] {
			as, ok := s.(*ast.AssignStmt)
			if !ok || as.Tok != token.DEFINE || len(as.Lhs) != 1 {
				continue
			}
			name := as.Lhs[0].(*ast.Ident).Name
			if name == parts {
				if nm, c := pxCallName(as.Rhs[0]); c != nil {
					splitCall = nm + "(" + strings.Join(func() []string {
						var a []string
						for i, x := range c.Args {
							if i == 0 {
								a = append(a, "xff")
							} else {
								a = append(a, src(x))
							}
						}
						return a
					}(), ", ") + ")"
				}
				continue
			}
			if name == w.hops || name == w.boundary || name == w.seen {
				inits = append(inits, fmt.Sprintf("(%s, %s)", leanStr(w.role(name)), leanStr(norm(as.Rhs[0]))))
			}
		}
		// loop body: parse, skip, trusted test
		body := loop.Body.List
		if len(body) < 3 {
			pxFail(loop, "loop body too short")
		}
		as, ok := body[0].(*ast.AssignStmt)
		if !ok {
			pxFail(body[0], "loop body does not start with <ip> := parseOneIP(parts[i])")
		}
		nm, pc := pxCallName(as.Rhs[0])
		if nm != "parseOneIP" || len(pc.Args) != 1 || strings.ReplaceAll(norm(pc.Args[0]), w.loopVar, "i") != "parts[i]" {
			pxFail(body[0], "loop body does not start with <ip> := parseOneIP(parts[i])")
		}
		ipVar := as.Lhs[0].(*ast.Ident).Name
		skip, ok := body[1].(*ast.IfStmt)
		if !ok || src(skip.Cond) != ipVar+` == ""` || !pxEndsIn(skip.Body, token.CONTINUE) || len(skip.Body.List) != 1 {
			pxFail(body[1], "second statement of the loop is not `if <ip> == \"\" { continue }`")
		}
		test, ok := body[2].(*ast.IfStmt)
		if !ok || test.Init != nil {
			pxFail(body[2], "third statement of the loop is not the isTrusted test")
		}
		cond := pxUnparen(test.Cond)
		neg := false
		if u, ok := cond.(*ast.UnaryExpr); ok && u.Op == token.NOT {
			neg, cond = true, pxUnparen(u.X)
		}
		if nm, c := pxCallName(cond); nm != "isTrusted" || len(c.Args) != 1 || src(c.Args[0]) != ipVar {
			pxFail(test, "third statement of the loop does not test isTrusted(<ip>)")
		}
		var thenL, elseL []ast.Stmt
		thenL = test.Body.List
		switch e := test.Else.(type) {
		case nil:
			if !pxEndsIn(test.Body, token.CONTINUE) {
				pxFail(test, "isTrusted test without else whose body does not end in continue")
			}
			elseL = body[3:]
		case *ast.BlockStmt:
			if len(body) != 3 {
				pxFail(body[3], "statements after the isTrusted if/else in the loop")
			}
			elseL = e.List
		default:
			pxFail(test, "else-if after the isTrusted test")
		}
		tr, un := thenL, elseL
		if neg {
			tr, un = elseL, thenL
		}
		// tail
		var tail []string
		for _, s := range d.Body.List[li+1:] {
			switch v := s.(type) {
			case *ast.IfStmt:
				inner := v
				pre := ""
				if v.Init == nil {
					c := strings.Join(w.conjuncts(v.Cond), " && ")
					c = strings.ReplaceAll(c, "len("+parts+")", "len(parts)")
					pre = "if " + c + ": "
					if len(v.Body.List) != 1 {
						pxFail(v, "tail: unexpected block")
					}
					in, ok := v.Body.List[0].(*ast.IfStmt)
					if !ok {
						pxFail(v, "tail: unexpected block")
					}
					inner = in
				}
				ia, ok := inner.Init.(*ast.AssignStmt)
				if !ok {
					pxFail(inner, "tail: if without `ip := parseOneIP(...)`")
				}
				nm, c := pxCallName(ia.Rhs[0])
				v0 := ia.Lhs[0].(*ast.Ident).Name
				if nm != "parseOneIP" || src(inner.Cond) != v0+` != ""` || pxReturnsIdent(inner.Body) != v0 {
					pxFail(inner, "tail: not `if ip := parseOneIP(x); ip != \"\" { return ip }`")
				}
				arg := norm(c.Args[0])
				arg = strings.ReplaceAll(arg, w.boundary, "boundary")
				tail = append(tail, pre+"return parseOneIP("+arg+") unless empty")
			case *ast.ReturnStmt:
				tail = append(tail, "return "+src(v.Results[0]))
			default:
				pxFail(s, "tail: unexpected statement")
			}
		}
		return fmt.Sprintf(`
/-- the loop of lastUntrustedXFF: (start, condition, step) of its index -/
def loopHeader : String × String × String := %s
/-- initial values of the walk variables, by role -/
def walkInit : List (String × String) := [%s]
/-- the loop parses parts[i] with parseOneIP and skips the item when that yields "" -/
def skipUnparsable : Bool := true
/-- statements of the branch taken for a trusted item, in source order -/
def trustedBranch : List String := %s
/-- statements of the branch taken for an untrusted item, in source order -/
def untrustedBranch : List String := %s
/-- what follows the loop -/
def walkTail : List String := %s
/-- how the item list is produced -/
def splitCall : String := %s
`, header, strings.Join(inits, ", "), pxStrs(w.branch(tr)), pxStrs(w.branch(un)), pxStrs(tail), leanStr(splitCall))
	})

	// ---- Context.ClientIP
	g.guard("ClientIP", `
def clientIPSteps : List String := ["EXTRACT-PROBLEM"]
def headerReadsBeforeGate : Nat := 4000000007
def headerArms : List (String × String × String) := [("EXTRACT-PROBLEM", "", "")]
`, func() string {
		d := fn("Context", "ClientIP")
		var steps []string
		peer := ""
		gateAt, reads := -1, 0
		var arms []string
		for _, s := range d.Body.List {
			switch v := s.(type) {
			case *ast.AssignStmt:
				if nm, c := pxCallName(v.Rhs[0]); nm == "clientIPFromRemoteAddr" && len(c.Args) == 1 && strings.HasSuffix(src(c.Args[0]), ".RemoteAddr") {
					peer = v.Lhs[0].(*ast.Ident).Name
					steps = append(steps, "peer := clientIPFromRemoteAddr(RemoteAddr)")
					continue
				}
				if pxCountCalls(v, "Get") > 0 {
					pxFail(v, "ClientIP: a header read outside the header loop")
				}
				// configuration alias (cfg := c.router.realip): not a decision
			case *ast.IfStmt:
				if pxReturnsIdent(v.Body) != peer || peer == "" || v.Else != nil {
					pxFail(v, "ClientIP: an if that does not return the peer: %s", src(v.Cond))
				}
				cond := pxUnparen(v.Cond)
				if u, ok := cond.(*ast.UnaryExpr); ok && u.Op == token.NOT {
					if nm, c := pxCallName(pxUnparen(u.X)); nm == "isTrusted" && len(c.Args) == 1 && src(c.Args[0]) == peer {
						steps = append(steps, "if !isTrusted(peer) return peer")
						gateAt = len(steps)
						continue
					}
				}
				if strings.Contains(src(cond), "== nil") && pxCountCalls(cond, "Get") == 0 {
					steps = append(steps, "if no configuration return peer")
					continue
				}
				pxFail(v, "ClientIP: unrecognised test %s", src(v.Cond))
			case *ast.RangeStmt:
				if !strings.HasSuffix(src(v.X), ".headers") {
					pxFail(v, "ClientIP: loop over something else than the configured headers")
				}
				if gateAt < 0 {
					pxFail(v, "ClientIP: the header loop comes before the trust gate on the peer")
				}
				steps = append(steps, "for h in headers: first that yields")
				if len(v.Body.List) != 1 {
					pxFail(v, "ClientIP: header loop body is not a single switch")
				}
				sw, ok := v.Body.List[0].(*ast.SwitchStmt)
				if !ok {
					pxFail(v, "ClientIP: header loop body is not a single switch")
				}
				for _, cs := range sw.Body.List {
					cc := cs.(*ast.CaseClause)
					label := "default"
					if len(cc.List) == 1 {
						l, ok := pxConstStr(p, cc.List[0])
						if !ok {
							pxFail(cc, "ClientIP: case label is not a string constant")
						}
						label = l
					} else if len(cc.List) > 1 {
						pxFail(cc, "ClientIP: several labels in one case")
					}
					if len(cc.Body) != 1 {
						pxFail(cc, "ClientIP: case body is not a single if")
					}
					ifs, ok := cc.Body[0].(*ast.IfStmt)
					if !ok || ifs.Init == nil {
						pxFail(cc, "ClientIP: case body is not `if ip := f(...); ip != \"\"`")
					}
					ia := ifs.Init.(*ast.AssignStmt)
					v0 := ia.Lhs[0].(*ast.Ident).Name
					fnm, fc := pxCallName(ia.Rhs[0])
					if src(ifs.Cond) != v0+` != ""` || pxReturnsIdent(ifs.Body) != v0 {
						pxFail(ifs, "ClientIP: case does not return the address it found")
					}
					get := pxFindCall(fc.Args[0], "Get")
					if get == nil || len(get.Args) != 1 {
						pxFail(ifs, "ClientIP: case does not read a request header")
					}
					key := src(get.Args[0])
					if s, ok := strLit(get.Args[0]); ok {
						key = s
					} else if nm, c := pxCallName(get.Args[0]); nm == "string" && len(c.Args) == 1 && src(c.Args[0]) == src(v.Value) {
						key = "<the configured name>"
					}
					arms = append(arms, fmt.Sprintf("(%s, %s, %s)", leanStr(label), leanStr(key), leanStr(fnm)))
				}
			case *ast.ReturnStmt:
				if len(v.Results) != 1 || src(v.Results[0]) != peer {
					pxFail(v, "ClientIP: final return is not the peer")
				}
				steps = append(steps, "return peer")
			default:
				pxFail(s, "ClientIP: unexpected statement")
			}
			if gateAt < 0 {
				reads += pxCountCalls(s, "Get")
			}
		}
		return fmt.Sprintf(`
/-- decision steps of Context.ClientIP in source order -/
def clientIPSteps : List String := %s
/-- request-header reads before the trust gate on the peer -/
def headerReadsBeforeGate : Nat := %d
/-- arms of the header switch: (case label, header read, function applied to its value) -/
def headerArms : List (String × String × String) := [%s]
`, pxStrs(steps), reads, strings.Join(arms, ", "))
	})

	// ---- compileProxies
	g.guard("compileProxies", `
def defaultHeaders : List String := ["EXTRACT-PROBLEM"]
def maxHopsNormalisation : String × Nat := ("EXTRACT-PROBLEM", 4000000007)
def invalidCIDRFailsFast : Bool := false
`, func() string {
		d := fn("", "compileProxies")
		var defaults []string
		norm, normTo := "", int64(-1)
		failFast := false
		ast.Inspect(d.Body, func(n ast.Node) bool {
			ifs, ok := n.(*ast.IfStmt)
			if !ok {
				return true
			}
			cond := src(ifs.Cond)
			switch {
			case strings.HasPrefix(cond, "len(") && strings.HasSuffix(cond, ".headers) == 0"):
				if cl := func() *ast.CompositeLit {
					var c *ast.CompositeLit
					ast.Inspect(ifs.Body, func(m ast.Node) bool {
						if x, ok := m.(*ast.CompositeLit); ok && c == nil {
							c = x
						}
						return true
					})
					return c
				}(); cl != nil {
					for _, e := range cl.Elts {
						s, ok := pxConstStr(p, e)
						if !ok {
							pxFail(e, "default header is not a string constant")
						}
						defaults = append(defaults, s)
					}
				}
			case strings.Contains(cond, ".maxHops"):
				b, ok := ifs.Cond.(*ast.BinaryExpr)
				if !ok || len(ifs.Body.List) != 1 {
					pxFail(ifs, "maxHops normalisation: unexpected shape")
				}
				as, ok := ifs.Body.List[0].(*ast.AssignStmt)
				if !ok {
					pxFail(ifs, "maxHops normalisation: unexpected shape")
				}
				v, ok := evalInt(as.Rhs[0])
				if !ok {
					pxFail(as, "maxHops normalisation: not an integer literal")
				}
				norm, normTo = "maxHops "+b.Op.String()+" "+src(b.Y), v
			case strings.Contains(cond, "err != nil"):
				if r, ok := ifs.Body.List[len(ifs.Body.List)-1].(*ast.ReturnStmt); ok && len(r.Results) == 2 && src(r.Results[0]) == "nil" {
					failFast = true
				}
			}
			return true
		})
		if defaults == nil || norm == "" {
			pxFail(d, "compileProxies: defaults not found")
		}
		return fmt.Sprintf(`
/-- headers consulted when none are configured -/
def defaultHeaders : List String := %s
/-- (test, value): a maxHops for which the test holds is replaced by the value -/
def maxHopsNormalisation : String × Nat := (%s, %d)
/-- a CIDR that does not parse makes compileProxies return an error (WithTrustedProxies panics) -/
def invalidCIDRFailsFast : Bool := %v
`, pxStrs(defaults), leanStr(norm), normTo, failFast)
	})

	// ---- small helpers: statement shapes
	for _, h := range []struct{ recv, name, def string }{
		{"realIPConfig", "isTrusted", "isTrustedShape"}, {"", "parseOneIP", "parseOneIPShape"},
		{"", "splitAndTrim", "splitAndTrimShape"}, {"", "clientIPFromRemoteAddr", "remoteAddrShape"},
	} {
		h := h
		g.guard(h.name, "\ndef "+h.def+" : List String := [\"EXTRACT-PROBLEM\"]\n", func() string {
			d := fn(h.recv, h.name)
			// parameter and receiver names are normalised away
			names := map[string]string{}
			if d.Recv != nil && len(d.Recv.List[0].Names) > 0 {
				names[d.Recv.List[0].Names[0].Name] = "cfg"
			}
			k := 0
			for _, f := range d.Type.Params.List {
				for _, n := range f.Names {
					names[n.Name] = fmt.Sprintf("arg%d", k)
					k++
				}
			}
			// locals are renamed in the order of their definition
			nv := 0
			ast.Inspect(d.Body, func(n ast.Node) bool {
				def := func(e ast.Expr) {
					if id, ok := e.(*ast.Ident); ok && id.Name != "_" {
						if _, dup := names[id.Name]; !dup {
							names[id.Name] = fmt.Sprintf("v%d", nv)
							nv++
						}
					}
				}
				switch v := n.(type) {
				case *ast.AssignStmt:
					if v.Tok == token.DEFINE {
						for _, l := range v.Lhs {
							def(l)
						}
					}
				case *ast.RangeStmt:
					if v.Tok == token.DEFINE {
						if v.Key != nil {
							def(v.Key)
						}
						if v.Value != nil {
							def(v.Value)
						}
					}
				}
				return true
			})
			lines := pxShape(d.Body.List)
			for i, l := range lines {
				lines[i] = pxRename(l, names)
			}
			return fmt.Sprintf("\n/-- statements of %s (receiver/parameters renamed) -/\ndef %s : List String := %s\n", h.name, h.def, pxStrs(lines))
		})
	}

	// ---- IsLocalhost
	g.guard("IsLocalhost", `
def localhostExact : List String := ["EXTRACT-PROBLEM"]
def localhostPrefixes : List String := ["EXTRACT-PROBLEM"]
def localhostFromClientIPOnly : Bool := false
`, func() string {
		d := fn("Context", "IsLocalhost")
		var exact, prefixes []string
		ipVar := ""
		only := true
		for _, s := range d.Body.List {
			switch v := s.(type) {
			case *ast.AssignStmt:
				if nm, _ := pxCallName(v.Rhs[0]); nm == "ClientIP" {
					ipVar = v.Lhs[0].(*ast.Ident).Name
				} else {
					only = false
				}
			case *ast.SwitchStmt:
				if src(v.Tag) != ipVar {
					only = false
				}
				for _, cs := range v.Body.List {
					cc := cs.(*ast.CaseClause)
					if pxReturnsIdent(&ast.BlockStmt{List: cc.Body}) != "true" {
						pxFail(cc, "IsLocalhost: a case that does not return true")
					}
					for _, e := range cc.List {
						sl, ok := strLit(e)
						if !ok {
							pxFail(e, "IsLocalhost: case label is not a string literal")
						}
						exact = append(exact, sl)
					}
				}
			case *ast.IfStmt:
				if pxReturnsIdent(v.Body) != "true" {
					pxFail(v, "IsLocalhost: an if that does not return true")
				}
				ast.Inspect(v.Cond, func(n ast.Node) bool {
					if c, ok := n.(*ast.CallExpr); ok {
						nm, _ := pxCallName(c)
						if nm != "HasPrefix" || len(c.Args) != 2 || src(c.Args[0]) != ipVar {
							pxFail(c, "IsLocalhost: test that is not strings.HasPrefix(<ip>, literal)")
						}
						sl, ok := strLit(c.Args[1])
						if !ok {
							pxFail(c, "IsLocalhost: prefix is not a literal")
						}
						prefixes = append(prefixes, sl)
						return false
					}
					return true
				})
			case *ast.ReturnStmt:
				if src(v.Results[0]) != "false" {
					pxFail(v, "IsLocalhost: final return is not false")
				}
			default:
				pxFail(s, "IsLocalhost: unexpected statement")
			}
		}
		if ipVar == "" {
			pxFail(d, "IsLocalhost does not start from ClientIP()")
		}
		return fmt.Sprintf(`
/-- addresses IsLocalhost accepts literally -/
def localhostExact : List String := %s
/-- prefixes IsLocalhost accepts -/
def localhostPrefixes : List String := %s
/-- IsLocalhost looks at nothing but the result of ClientIP() -/
def localhostFromClientIPOnly : Bool := %v
`, pxStrs(exact), pxStrs(prefixes), only)
	})

	// ---- panic-freedom, structurally: every index / slice expression, explicit panic, unchecked type assertion and
	// integer division in the functions on the ClientIP path, with the guard that keeps it in range
	g.guard("index sites", `
def indexSites : List (String × String × String) := [("EXTRACT-PROBLEM", "", "")]
def explicitPanicSites : List (String × String) := [("EXTRACT-PROBLEM", "")]
`, func() string {
		var sites, panics []string
		for _, fnm := range []struct{ recv, name string }{{"Context", "ClientIP"}, {"", "lastUntrustedXFF"}, {"", "parseOneIP"},
			{"", "splitAndTrim"}, {"", "clientIPFromRemoteAddr"}, {"realIPConfig", "isTrusted"}} {
			d := fn(fnm.recv, fnm.name)
			// assignments per identifier (to tell what a variable can hold)
			assigned := map[string][]string{}
			ast.Inspect(d.Body, func(n ast.Node) bool {
				switch v := n.(type) {
				case *ast.AssignStmt:
					for i, l := range v.Lhs {
						if id, ok := l.(*ast.Ident); ok && i < len(v.Rhs) {
							assigned[id.Name] = append(assigned[id.Name], src(v.Rhs[i]))
						}
					}
				case *ast.IncDecStmt:
					if id, ok := v.X.(*ast.Ident); ok {
						assigned[id.Name] = append(assigned[id.Name], v.Tok.String())
					}
				}
				return true
			})
			var path []ast.Node
			var visit func(n ast.Node)
			visit = func(n ast.Node) {
				if n == nil {
					return
				}
				path = append(path, n)
				defer func() { path = path[:len(path)-1] }()
				switch v := n.(type) {
				case *ast.IndexExpr:
					base, idx := src(v.X), src(v.Index)
					guard := "UNGUARDED"
					// (a) the index of an enclosing descending loop over the same slice
					for _, p := range path {
						f, ok := p.(*ast.ForStmt)
						if !ok || f.Init == nil || f.Cond == nil || f.Post == nil {
							continue
						}
						if src(f.Init) == idx+" := len("+base+") - 1" && src(f.Cond) == idx+" >= 0" && src(f.Post) == idx+"--" && len(assigned[idx]) == 2 {
							guard = "index of the descending loop over the same slice (0 <= i < len)"
						}
					}
					// (b) under `idx < len(base)` with idx only ever holding len(base) or a loop index
					for _, p := range path {
						is, ok := p.(*ast.IfStmt)
						if ok && src(is.Cond) == idx+" < len("+base+")" {
							okv := len(assigned[idx]) > 0
							for _, a := range assigned[idx] {
								if a != "len("+base+")" && !(len(assigned[a]) > 0 && strings.HasPrefix(assigned[a][0], "len("+base+")")) {
									okv = false
								}
							}
							if okv {
								guard = "under idx < len(slice); idx only holds len(slice) or the loop index"
							}
						}
					}
					// (c) constant 0 after an `if len(base) == 0 { return … }` earlier in the function
					if idx == "0" {
						for _, st := range d.Body.List {
							if st.Pos() >= v.Pos() {
								break
							}
							if is, ok := st.(*ast.IfStmt); ok && src(is.Cond) == "len("+base+") == 0" && pxReturnsIdent(is.Body) != "" {
								guard = "element 0 after the empty-slice return"
							}
						}
					}
					// map / header lookups never panic
					if strings.HasSuffix(base, ".Header") || strings.Contains(base, "map[") {
						guard = "map lookup"
					}
					sites = append(sites, fmt.Sprintf("(%s, %s, %s)", leanStr(fnm.name), leanStr(base+"["+idx+"]"), leanStr(guard)))
				case *ast.SliceExpr:
					sites = append(sites, fmt.Sprintf("(%s, %s, %s)", leanStr(fnm.name), leanStr(src(v)), leanStr("UNGUARDED slice expression")))
				case *ast.TypeAssertExpr:
					unchecked := true
					if len(path) >= 2 {
						if as, ok := path[len(path)-2].(*ast.AssignStmt); ok && len(as.Lhs) == 2 {
							unchecked = false
						}
					}
					if unchecked && v.Type != nil {
						panics = append(panics, fmt.Sprintf("(%s, %s)", leanStr(fnm.name), leanStr("unchecked "+src(v))))
					}
				case *ast.CallExpr:
					if id, ok := v.Fun.(*ast.Ident); ok && id.Name == "panic" {
						panics = append(panics, fmt.Sprintf("(%s, %s)", leanStr(fnm.name), leanStr(src(v))))
					}
				case *ast.BinaryExpr:
					if v.Op == token.QUO || v.Op == token.REM {
						panics = append(panics, fmt.Sprintf("(%s, %s)", leanStr(fnm.name), leanStr("division "+src(v))))
					}
				}
				ast.Inspect(n, func(m ast.Node) bool {
					if m == nil || m == n {
						return m == n
					}
					visit(m)
					return false
				})
			}
			visit(d.Body)
		}
		return fmt.Sprintf(`
/-- every index expression in ClientIP, lastUntrustedXFF, parseOneIP, splitAndTrim, clientIPFromRemoteAddr,
    isTrusted: (function, expression, what keeps it in range) -/
def indexSites : List (String × String × String) := [%s]
/-- explicit panics, unchecked type assertions and integer divisions in those functions -/
def explicitPanicSites : List (String × String) := [%s]
`, strings.Join(sites, ", "), strings.Join(panics, ", "))
	})

	var out strings.Builder
	out.WriteString("/- GENERATED by extract/proxies.go from router/proxies.go and router/request.go of the current working tree — do not edit, not committed. -/\nnamespace Rivaas.Gen.Proxies\n")
	if len(g.errs) > 0 {
		out.WriteString("\n/-- the extractor failed closed on part of the source -/\ndef extractProblem : String := " + leanStr(strings.Join(g.errs, "; ")) + "\n")
	} else {
		out.WriteString("\ndef extractProblem : String := \"\"\n")
	}
	out.WriteString(g.b.String())
	out.WriteString("\nend Rivaas.Gen.Proxies\n")
	return out.String()
}

// pxRename replaces whole-word occurrences of the given identifiers.
func pxRename(s string, names map[string]string) string {
	var b strings.Builder
	i := 0
	isW := func(c byte) bool {
		return c == '_' || (c >= '0' && c <= '9') || (c >= 'a' && c <= 'z') || (c >= 'A' && c <= 'Z')
	}
	for i < len(s) {
		if isW(s[i]) {
			j := i
			for j < len(s) && isW(s[j]) {
				j++
			}
			w := s[i:j]
			if r, ok := names[w]; ok && (i == 0 || s[i-1] != '.') {
				b.WriteString(r)
			} else {
				b.WriteString(w)
			}
			i = j
		} else {
			b.WriteByte(s[i])
			i++
		}
	}
	return b.String()
}

// pxShape renders a statement list as one line per statement, nested blocks indented.
func pxShape(list []ast.Stmt) []string {
	var out []string
	var walk func(list []ast.Stmt, ind string)
	walk = func(list []ast.Stmt, ind string) {
		for _, s := range list {
			switch v := s.(type) {
			case *ast.IfStmt:
				init := ""
				if v.Init != nil {
					init = src(v.Init) + "; "
				}
				out = append(out, ind+"if "+init+src(v.Cond))
				walk(v.Body.List, ind+"  ")
				switch e := v.Else.(type) {
				case *ast.BlockStmt:
					out = append(out, ind+"else")
					walk(e.List, ind+"  ")
				case *ast.IfStmt:
					out = append(out, ind+"else")
					walk([]ast.Stmt{e}, ind+"  ")
				}
			case *ast.RangeStmt:
				out = append(out, ind+"range "+src(v.X))
				walk(v.Body.List, ind+"  ")
			case *ast.ForStmt:
				out = append(out, ind+"for")
				walk(v.Body.List, ind+"  ")
			case *ast.SwitchStmt:
				tag := ""
				if v.Tag != nil {
					tag = " " + src(v.Tag)
				}
				out = append(out, ind+"switch"+tag)
				for _, c := range v.Body.List {
					cc := c.(*ast.CaseClause)
					lab := "default"
					if len(cc.List) > 0 {
						var ls []string
						for _, e := range cc.List {
							ls = append(ls, src(e))
						}
						lab = "case " + strings.Join(ls, ", ")
					}
					out = append(out, ind+"  "+lab)
					walk(cc.Body, ind+"    ")
				}
			case *ast.BlockStmt:
				walk(v.List, ind)
			default:
				out = append(out, ind+src(s))
			}
		}
	}
	walk(list, "")
	return out
}

// pxPositional maps receiver -> "recv", parameters -> arg0.., and locals (in order of definition) -> v0..
func pxPositional(d *ast.FuncDecl, recvName string) map[string]string {
	names := map[string]string{}
	if d.Recv != nil && len(d.Recv.List[0].Names) > 0 {
		names[d.Recv.List[0].Names[0].Name] = recvName
	}
	k := 0
	for _, f := range d.Type.Params.List {
		for _, n := range f.Names {
			names[n.Name] = fmt.Sprintf("arg%d", k)
			k++
		}
	}
	if d.Type.Results != nil {
		for _, f := range d.Type.Results.List {
			for _, n := range f.Names {
				names[n.Name] = "res_" + n.Name
			}
		}
	}
	nv := 0
	ast.Inspect(d.Body, func(n ast.Node) bool {
		def := func(e ast.Expr) {
			if id, ok := e.(*ast.Ident); ok && id.Name != "_" {
				if _, dup := names[id.Name]; !dup {
					names[id.Name] = fmt.Sprintf("v%d", nv)
					nv++
				}
			}
		}
		switch v := n.(type) {
		case *ast.AssignStmt:
			if v.Tok == token.DEFINE {
				for _, l := range v.Lhs {
					def(l)
				}
			}
		case *ast.RangeStmt:
			if v.Tok == token.DEFINE {
				if v.Key != nil {
					def(v.Key)
				}
				if v.Value != nil {
					def(v.Value)
				}
			}
		case *ast.DeclStmt:
			if gd, ok := v.Decl.(*ast.GenDecl); ok {
				for _, sp := range gd.Specs {
					if vs, ok := sp.(*ast.ValueSpec); ok {
						for _, n := range vs.Names {
							def(n)
						}
					}
				}
			}
		}
		return true
	})
	return names
}
