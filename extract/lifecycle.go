package main

// Gen/Lifecycle.lean — control-flow skeletons of App.Start / StartTLS / StartMTLS / runServer (app/server.go and
// what they call in package app), as terms of Rivaas.LifecycleSkel.Stmt; Tie/C09.lean checks the call-order
// and every-exit-path obligations on them in the kernel. (Owner: C09. Same walker as harness/c09/skel.go,
// which ships the skeletons to the C09 driver as a case line.)
//
// This generator never makes the extractor exit: when it meets a statement form it does not know around a
// call of interest it still fails closed, but only for C09 — it writes `extractError := "<reason>"` into
// Gen/Lifecycle.lean and Tie/C09.lean (theorem `extraction_complete`) no longer builds.

import (
	"bytes"
	"fmt"
	"go/ast"
	"go/parser"
	"go/printer"
	"go/token"
	"os"
	"path/filepath"
	"sort"
	"strings"
)

var lcInterest = map[string]bool{
	"startObservability": true, "executeStartHooks": true, "registerOpenAPIEndpoints": true, "Freeze": true,
	"runServer": true, "abortStartup": true, "Listen": true, "printStartupBanner": true, "flushStartupLogs": true,
	"logStartupInfo": true, "close": true, "startFunc": true, "Close": true, "executeReadyHooks": true,
	"Reload": true, "executeShutdownHooks": true, "Shutdown": true, "shutdownObservability": true,
	"executeStopHooks": true, "LoadX509KeyPair": true, "validate": true,
}

type lcNode struct {
	kind string // C R T G K S I O
	name string
	qual string
	kids []*lcNode
}

var lcK = &lcNode{kind: "K"}

func lcSeq(a, b *lcNode) *lcNode {
	if a.kind == "K" {
		return b
	}
	if b.kind == "K" {
		return a
	}
	return &lcNode{kind: "S", kids: []*lcNode{a, b}}
}

func lcSeqs(ns []*lcNode) *lcNode {
	out := lcK
	for i := len(ns) - 1; i >= 0; i-- {
		out = lcSeq(ns[i], out)
	}
	return out
}

type lcErr struct{ msg string }

type lcX struct {
	fset      *token.FileSet
	funcs     map[string]*ast.FuncDecl // "App.m" for methods on *App / App, "f" for functions
	hasInt    map[string]int           // memo: 0 unknown, 1 computing, 2 no, 3 yes
	stack     map[string]bool
	goBody    *lcNode // body of the `go func(){…}()` found while walking (runServer has exactly one)
	goCount   int
	loopLabel string // label on the event loop itself, when it is left by `break <label>` instead of `goto`
}

func (x *lcX) fail(n ast.Node, format string, a ...any) {
	where := ""
	if n != nil {
		p := x.fset.Position(n.Pos())
		where = fmt.Sprintf("%s:%d: ", filepath.Base(p.Filename), p.Line)
	}
	panic(lcErr{where + fmt.Sprintf(format, a...)})
}

func (x *lcX) text(n ast.Node) string {
	var b bytes.Buffer
	_ = printer.Fprint(&b, x.fset, n)
	return strings.Join(strings.Fields(b.String()), " ")
}

func lcCalleeOf(c *ast.CallExpr) (name string, recv ast.Expr) {
	switch f := c.Fun.(type) {
	case *ast.Ident:
		return f.Name, nil
	case *ast.SelectorExpr:
		return f.Sel.Name, f.X
	}
	return "", nil
}

// local resolves a call to a function or *App method of the package (syntactically: `a.m(…)` with a
// plain identifier receiver, or `f(…)`).
func (x *lcX) local(c *ast.CallExpr) (string, *ast.FuncDecl) {
	name, recv := lcCalleeOf(c)
	if name == "" {
		return "", nil
	}
	if recv == nil {
		if d, ok := x.funcs[name]; ok {
			return name, d
		}
		return "", nil
	}
	if _, ok := recv.(*ast.Ident); ok {
		if d, ok := x.funcs["App."+name]; ok {
			return "App." + name, d
		}
	}
	return "", nil
}

// interesting: does the body of the function (transitively through local calls) contain a call of interest?
func (x *lcX) interesting(key string, d *ast.FuncDecl) bool {
	switch x.hasInt[key] {
	case 1, 2:
		return false
	case 3:
		return true
	}
	x.hasInt[key] = 1
	found := false
	if d.Body != nil {
		ast.Inspect(d.Body, func(n ast.Node) bool {
			if found {
				return false
			}
			if c, ok := n.(*ast.CallExpr); ok {
				name, _ := lcCalleeOf(c)
				if lcInterest[name] {
					found = true
					return false
				}
				if k, dd := x.local(c); dd != nil && x.interesting(k, dd) {
					found = true
					return false
				}
			}
			return true
		})
	}
	if found {
		x.hasInt[key] = 3
	} else {
		x.hasInt[key] = 2
	}
	return found
}

// expr: the calls of interest inside an expression, in evaluation order. Function literals are not
// entered (their bodies do not run here).
func (x *lcX) expr(e ast.Expr) *lcNode {
	if e == nil {
		return lcK
	}
	switch v := e.(type) {
	case *ast.CallExpr:
		var parts []*lcNode
		name, recv := lcCalleeOf(v)
		if recv != nil {
			parts = append(parts, x.expr(recv))
		} else if _, ok := v.Fun.(*ast.Ident); !ok {
			parts = append(parts, x.expr(v.Fun))
		}
		for _, a := range v.Args {
			parts = append(parts, x.expr(a))
		}
		if lcInterest[name] {
			qual := ""
			switch {
			case recv != nil && (name == "Close" || name == "Shutdown"):
				qual = x.text(recv)
			case name == "close" && len(v.Args) == 1:
				qual = x.text(v.Args[0])
			case name == "startFunc" && len(v.Args) == 1:
				qual = x.text(v.Args[0])
			}
			parts = append(parts, &lcNode{kind: "C", name: name, qual: qual})
		} else if key, d := x.local(v); d != nil && x.interesting(key, d) {
			if x.stack[key] {
				x.fail(v, "recursive call of %s", key)
			}
			x.stack[key] = true
			body := x.block(d.Body.List)
			delete(x.stack, key)
			parts = append(parts, &lcNode{kind: "O", kids: []*lcNode{body}})
		}
		return lcSeqs(parts)
	case *ast.UnaryExpr:
		inner := x.expr(v.X)
		if v.Op == token.ARROW {
			return lcSeq(inner, &lcNode{kind: "C", name: "recv", qual: x.text(v.X)})
		}
		return inner
	case *ast.BinaryExpr:
		// && and || may skip the right operand; calls of interest there would need a branch
		r := x.expr(v.Y)
		if (v.Op == token.LAND || v.Op == token.LOR) && r.kind != "K" {
			x.fail(v, "call of interest in the right operand of %s", v.Op)
		}
		return lcSeq(x.expr(v.X), r)
	case *ast.ParenExpr:
		return x.expr(v.X)
	case *ast.SelectorExpr:
		return x.expr(v.X)
	case *ast.StarExpr:
		return x.expr(v.X)
	case *ast.IndexExpr:
		return lcSeq(x.expr(v.X), x.expr(v.Index))
	case *ast.SliceExpr:
		return lcSeqs([]*lcNode{x.expr(v.X), x.expr(v.Low), x.expr(v.High), x.expr(v.Max)})
	case *ast.TypeAssertExpr:
		return x.expr(v.X)
	case *ast.KeyValueExpr:
		return lcSeq(x.expr(v.Key), x.expr(v.Value))
	case *ast.CompositeLit:
		var parts []*lcNode
		for _, el := range v.Elts {
			parts = append(parts, x.expr(el))
		}
		return lcSeqs(parts)
	case *ast.FuncLit, *ast.Ident, *ast.BasicLit, *ast.ArrayType, *ast.MapType, *ast.ChanType, *ast.FuncType,
		*ast.StructType, *ast.InterfaceType, *ast.Ellipsis:
		return lcK
	}
	x.fail(e, "expression form %T", e)
	return nil
}

func (x *lcX) block(list []ast.Stmt) *lcNode {
	var parts []*lcNode
	for _, s := range list {
		parts = append(parts, x.stmt(s))
	}
	return lcSeqs(parts)
}

func lcHasControl(n ast.Node) bool {
	found := false
	ast.Inspect(n, func(m ast.Node) bool {
		switch m.(type) {
		case *ast.FuncLit:
			return false
		case *ast.ReturnStmt, *ast.BranchStmt, *ast.GoStmt:
			found = true
		}
		return !found
	})
	return found
}

func (x *lcX) stmt(s ast.Stmt) *lcNode {
	switch v := s.(type) {
	case nil:
		return lcK
	case *ast.ExprStmt:
		return x.expr(v.X)
	case *ast.AssignStmt:
		var parts []*lcNode
		for _, e := range v.Rhs {
			parts = append(parts, x.expr(e))
		}
		for _, e := range v.Lhs {
			parts = append(parts, x.expr(e))
		}
		return lcSeqs(parts)
	case *ast.DeclStmt:
		var parts []*lcNode
		if g, ok := v.Decl.(*ast.GenDecl); ok {
			for _, sp := range g.Specs {
				if vs, ok := sp.(*ast.ValueSpec); ok {
					for _, e := range vs.Values {
						parts = append(parts, x.expr(e))
					}
				}
			}
		}
		return lcSeqs(parts)
	case *ast.IncDecStmt:
		return x.expr(v.X)
	case *ast.SendStmt:
		return lcSeq(x.expr(v.Chan), x.expr(v.Value))
	case *ast.EmptyStmt:
		return lcK
	case *ast.BlockStmt:
		return x.block(v.List)
	case *ast.IfStmt:
		if body, ok := x.tryIdiom(v); ok {
			t := x.block(v.Body.List)
			e := lcK
			if v.Else != nil {
				e = x.stmt(v.Else)
			}
			return &lcNode{kind: "J", kids: []*lcNode{body, t, e}}
		}
		head := lcSeq(x.stmt(v.Init), x.expr(v.Cond))
		t := x.block(v.Body.List)
		e := lcK
		if v.Else != nil {
			e = x.stmt(v.Else)
		}
		if t.kind == "K" && e.kind == "K" {
			return head
		}
		return lcSeq(head, &lcNode{kind: "I", kids: []*lcNode{t, e}})
	case *ast.ReturnStmt:
		if len(v.Results) == 1 {
			if c, ok := v.Results[0].(*ast.CallExpr); ok {
				name, recv := lcCalleeOf(c)
				if lcInterest[name] {
					var parts []*lcNode
					if recv != nil {
						parts = append(parts, x.expr(recv))
					}
					for _, a := range c.Args {
						parts = append(parts, x.expr(a))
					}
					return lcSeq(lcSeqs(parts), &lcNode{kind: "T", name: name})
				}
			}
		}
		var parts []*lcNode
		for _, e := range v.Results {
			parts = append(parts, x.expr(e))
		}
		kind := "R"
		if n := len(v.Results); n == 0 {
			kind = "N"
		} else if id, ok := v.Results[n-1].(*ast.Ident); ok && id.Name == "nil" {
			kind = "N"
		}
		return lcSeq(lcSeqs(parts), &lcNode{kind: kind})
	case *ast.BranchStmt:
		if v.Tok == token.GOTO && v.Label != nil {
			return &lcNode{kind: "G", name: v.Label.Name}
		}
		// `break <label of the event loop>` is the same control flow as `goto <label right after the loop>`
		if v.Tok == token.BREAK && v.Label != nil && x.loopLabel != "" && v.Label.Name == x.loopLabel {
			return &lcNode{kind: "G", name: "after " + x.loopLabel}
		}
		x.fail(v, "branch statement %s", v.Tok)
	case *ast.DeferStmt:
		// deferred calls run when the function returns; none of the calls of interest may hide there
		if d := x.expr(v.Call); d.kind != "K" {
			x.fail(v, "deferred call of interest")
		}
		if fl, ok := v.Call.Fun.(*ast.FuncLit); ok {
			if b := x.block(fl.Body.List); b.kind != "K" {
				x.fail(v, "deferred function literal with calls of interest")
			}
		}
		return lcK
	case *ast.GoStmt:
		fl, ok := v.Call.Fun.(*ast.FuncLit)
		if !ok {
			if d := x.expr(v.Call); d.kind != "K" {
				x.fail(v, "go statement with a call of interest")
			}
			return lcK
		}
		x.goCount++
		x.goBody = x.block(fl.Body.List)
		return &lcNode{kind: "C", name: "go"}
	case *ast.ForStmt, *ast.RangeStmt, *ast.SwitchStmt, *ast.TypeSwitchStmt, *ast.SelectStmt:
		// loops and switches are fine as long as nothing of interest and no control transfer is inside
		inner := lcK
		func() {
			defer func() {
				if r := recover(); r != nil {
					if _, ok := r.(lcErr); ok {
						inner = &lcNode{kind: "X"}
						return
					}
					panic(r)
				}
			}()
			ast.Inspect(v, func(n ast.Node) bool {
				if c, ok := n.(*ast.CallExpr); ok {
					if d := x.expr(c); d.kind != "K" {
						inner = d
					}
				}
				_, isLit := n.(*ast.FuncLit)
				return !isLit
			})
		}()
		if inner.kind != "K" || lcHasControl(v) {
			x.fail(v, "%T with calls of interest or control transfer", s)
		}
		return lcK
	case *ast.LabeledStmt:
		x.fail(v, "label %s in an unexpected place", v.Label.Name)
	}
	x.fail(s, "statement form %T", s)
	return nil
}

// tryIdiom recognises `if …, err := f(…); err != nil {` where f is a same-package callee that gets inlined:
// which branch runs is decided by how f returns, not by a fresh atom.
func (x *lcX) tryIdiom(v *ast.IfStmt) (*lcNode, bool) {
	as, ok := v.Init.(*ast.AssignStmt)
	if !ok || len(as.Rhs) != 1 || len(as.Lhs) == 0 {
		return nil, false
	}
	call, ok := as.Rhs[0].(*ast.CallExpr)
	if !ok {
		return nil, false
	}
	key, d := x.local(call)
	name, _ := lcCalleeOf(call)
	if d == nil || lcInterest[name] || !x.interesting(key, d) {
		return nil, false
	}
	errVar, ok := as.Lhs[len(as.Lhs)-1].(*ast.Ident)
	if !ok {
		return nil, false
	}
	cond, ok := v.Cond.(*ast.BinaryExpr)
	if !ok || cond.Op != token.NEQ {
		return nil, false
	}
	l, lok := cond.X.(*ast.Ident)
	r, rok := cond.Y.(*ast.Ident)
	if !lok || !rok || l.Name != errVar.Name || r.Name != "nil" {
		return nil, false
	}
	for _, a := range call.Args {
		if e := x.expr(a); e.kind != "K" {
			return nil, false
		}
	}
	if x.stack[key] {
		x.fail(call, "recursive call of %s", key)
	}
	x.stack[key] = true
	body := x.block(d.Body.List)
	delete(x.stack, key)
	return body, true
}

func isFor(s ast.Stmt) bool { _, ok := s.(*ast.ForStmt); return ok }

type lcOut struct {
	name string
	term *lcNode
	err  string
	text string // for name == "shapes": ready-made Lean text (lifecycle_shapes.go)
}

// lcExtract parses <repo>/app and returns the skeletons (or, per skeleton, why it could not be built).
func lcExtract(repo string) []lcOut {
	fset := token.NewFileSet()
	dir := filepath.Join(repo, "app")
	ents, err := os.ReadDir(dir)
	if err != nil {
		return []lcOut{{name: "parse", err: err.Error()}}
	}
	x := &lcX{fset: fset, funcs: map[string]*ast.FuncDecl{}, hasInt: map[string]int{}, stack: map[string]bool{}}
	var names []string
	for _, e := range ents {
		n := e.Name()
		if e.IsDir() || !strings.HasSuffix(n, ".go") || strings.HasSuffix(n, "_test.go") || strings.HasSuffix(n, "_windows.go") {
			continue
		}
		names = append(names, n)
	}
	sort.Strings(names)
	for _, n := range names {
		f, err := parser.ParseFile(fset, filepath.Join(dir, n), nil, parser.SkipObjectResolution)
		if err != nil {
			return []lcOut{{name: "parse", err: err.Error()}}
		}
		for _, d := range f.Decls {
			fd, ok := d.(*ast.FuncDecl)
			if !ok || fd.Body == nil {
				continue
			}
			if fd.Recv == nil {
				x.funcs[fd.Name.Name] = fd
				continue
			}
			if len(fd.Recv.List) == 1 {
				t := fd.Recv.List[0].Type
				if st, ok := t.(*ast.StarExpr); ok {
					t = st.X
				}
				if id, ok := t.(*ast.Ident); ok && id.Name == "App" {
					x.funcs["App."+fd.Name.Name] = fd
				}
			}
		}
	}
	var out []lcOut
	guard := func(name string, f func() *lcNode) {
		defer func() {
			if r := recover(); r != nil {
				if e, ok := r.(lcErr); ok {
					out = append(out, lcOut{name: name, err: e.msg})
					return
				}
				panic(r)
			}
		}()
		out = append(out, lcOut{name: name, term: f()})
	}
	for _, entry := range []string{"Start", "StartTLS", "StartMTLS"} {
		d := x.funcs["App."+entry]
		if d == nil {
			out = append(out, lcOut{name: "entry-" + entry, err: "method not found"})
			continue
		}
		guard("entry-"+entry, func() *lcNode { return x.block(d.Body.List) })
	}
	// runServer: prefix | goroutine | select arms | after the label
	rs := x.funcs["App.runServer"]
	if rs == nil {
		return append(out, lcOut{name: "runServer", err: "method not found"})
	}
	var pre, post []ast.Stmt
	var loop *ast.ForStmt
	for _, s := range rs.Body.List {
		switch {
		case loop == nil:
			if f, ok := s.(*ast.ForStmt); ok {
				loop = f
			} else if ls, ok := s.(*ast.LabeledStmt); ok && isFor(ls.Stmt) {
				loop = ls.Stmt.(*ast.ForStmt)
				x.loopLabel = ls.Label.Name
			} else {
				pre = append(pre, s)
			}
		default:
			post = append(post, s)
		}
	}
	if loop == nil || loop.Init != nil || loop.Cond != nil || loop.Post != nil || len(loop.Body.List) != 1 {
		return append(out, lcOut{name: "runServer", err: "no `for { select { … } }` event loop found"})
	}
	sel, ok := loop.Body.List[0].(*ast.SelectStmt)
	if !ok {
		return append(out, lcOut{name: "runServer", err: "the event loop is not a single select"})
	}
	guard("run-pre", func() *lcNode {
		x.goBody, x.goCount = nil, 0
		t := x.block(pre)
		if x.goCount != 1 {
			x.fail(rs, "expected exactly one goroutine before the event loop, found %d", x.goCount)
		}
		return t
	})
	if x.goBody != nil {
		gb := x.goBody
		guard("run-go", func() *lcNode { return gb })
	}
	var armNames []string
	for _, cl := range sel.Body.List {
		cc := cl.(*ast.CommClause)
		name := "default"
		if cc.Comm != nil {
			var rx ast.Expr
			switch c := cc.Comm.(type) {
			case *ast.ExprStmt:
				rx = c.X
			case *ast.AssignStmt:
				if len(c.Rhs) == 1 {
					rx = c.Rhs[0]
				}
			}
			if u, ok := rx.(*ast.UnaryExpr); ok && u.Op == token.ARROW {
				name = x.text(u.X)
			} else {
				name = "?"
			}
		}
		armNames = append(armNames, name)
		guard("run-arm "+name, func() *lcNode { return x.block(cc.Body) })
	}
	guard("run-after", func() *lcNode {
		if len(post) == 0 {
			x.fail(rs, "nothing after the event loop")
		}
		ls, ok := post[0].(*ast.LabeledStmt)
		if !ok {
			if x.loopLabel != "" {
				// the loop is left by `break <its label>`: what follows it plays the part of the labelled statement
				return lcSeq(&lcNode{kind: "C", name: "label", qual: "after " + x.loopLabel}, x.block(post))
			}
			x.fail(post[0], "the statement after the event loop carries no label")
		}
		rest := append([]ast.Stmt{ls.Stmt}, post[1:]...)
		return lcSeq(&lcNode{kind: "C", name: "label", qual: ls.Label.Name}, x.block(rest))
	})
	// the shapes (lifecycle_shapes.go)
	func() {
		defer func() {
			if r := recover(); r != nil {
				if e, ok := r.(lcErr); ok {
					out = append(out, lcOut{name: "shapes", err: e.msg})
					return
				}
				panic(r)
			}
		}()
		label := ""
		if len(post) > 0 {
			if ls, ok := post[0].(*ast.LabeledStmt); ok {
				label = ls.Label.Name
			} else if x.loopLabel != "" {
				label = "after " + x.loopLabel
			}
		}
		out = append(out, lcOut{name: "shapes", text: x.shapes(armNames, label)})
	}()
	return out
}

// ---------------------------------------------------------------- Lean rendering

func (n *lcNode) lean(ctr *int) string {
	nm := func(s string) string { return "(nm " + leanStr(s) + ")" }
	switch n.kind {
	case "C":
		return "(.call " + nm(n.name) + " " + nm(n.qual) + ")"
	case "R":
		return "(.ret false)"
	case "N":
		return "(.ret true)"
	case "T":
		return "(.tail " + nm(n.name) + ")"
	case "G":
		return "(.goto " + nm(n.name) + ")"
	case "K":
		return ".skip"
	case "S":
		return "(.seq " + n.kids[0].lean(ctr) + " " + n.kids[1].lean(ctr) + ")"
	case "I":
		c := *ctr
		*ctr++
		return fmt.Sprintf("(.ite %d %s %s)", c, n.kids[0].lean(ctr), n.kids[1].lean(ctr))
	case "O":
		return "(.scope " + n.kids[0].lean(ctr) + ")"
	case "J":
		c := *ctr
		*ctr++
		return fmt.Sprintf("(.try %d %s %s %s)", c, n.kids[0].lean(ctr), n.kids[1].lean(ctr), n.kids[2].lean(ctr))
	}
	panic(lcErr{"unknown skeleton node " + n.kind})
}

// genLifecycle renders Gen/Lifecycle.lean. It does not panic: problems end up in `extractError`.
func genLifecycle(repo string) (out string) {
	var b strings.Builder
	b.WriteString("import Rivaas.Model.LifecycleWhole\n/- REGENERATED by extract/ from app/*.go on every run — do not edit. -/\nnamespace Rivaas.Gen.Lifecycle\nopen Rivaas.LifecycleSkel\n\n")
	errText := ""
	var entries, arms []string
	pre, gor, after := ".skip", ".skip", ".skip"
	shapes := ""
	func() {
		defer func() {
			if r := recover(); r != nil {
				errText = fmt.Sprint(r)
			}
		}()
		for _, sk := range lcExtract(repo) {
			if sk.err != "" {
				errText += sk.name + ": " + sk.err + "; "
				continue
			}
			if sk.name == "shapes" {
				shapes = sk.text
				continue
			}
			ctr := 0
			t := sk.term.lean(&ctr)
			switch {
			case strings.HasPrefix(sk.name, "entry-"):
				entries = append(entries, t)
			case sk.name == "run-pre":
				pre = t
			case sk.name == "run-go":
				gor = t
			case strings.HasPrefix(sk.name, "run-arm"):
				arms = append(arms, t)
			case sk.name == "run-after":
				after = t
			}
		}
	}()
	fmt.Fprintf(&b, "/-- why the skeletons could not be extracted completely (\"\" = they were) -/\ndef extractError : String := %s\n\n", leanStr(errText))
	fmt.Fprintf(&b, "def skels : Skels :=\n  { entries := [\n      %s],\n    pre := %s,\n    go := %s,\n    arms := [\n      %s],\n    after := %s }\n\n",
		strings.Join(entries, ",\n      "), pre, gor, strings.Join(arms, ",\n      "), after)
	if shapes == "" {
		// fail closed: the shape definitions must exist for Tie/C09 to build; empty ones cannot pass its obligations
		shapes = "def loopShape : LoopShape := { armChans := [], label := \"\", gotoTargets := [] }\ndef hookLoops : List HookLoop := []\n" +
			"def reloadShape : ReloadShape := { lockFirst := false, deferUnlockNext := false, hooksAfter := false, noOtherUnlock := false }\n" +
			"def obsShape : ObsShape := { started := [], startReturnsOnError := false, shutDown := [], shutdownHasNoReturn := false, abortOrder := [], abortCtxDetached := false, shutdownCtxDetached := false, hooksAndDrainShareCtx := false, finalCtxFreshWhenExpired := false, flushAndStopShareFinalCtx := false }\n"
	}
	b.WriteString(shapes)
	b.WriteString("\nend Rivaas.Gen.Lifecycle\n")
	return b.String()
}
