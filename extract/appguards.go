package main

// Gen/AppGuards.lean (C12, app layer): for every exported method of app.App, app.Group and app.VersionGroup the
// sequence, in source order and with calls to other methods of the three types inlined, of
//
//	guard              a top-level `if <…>.Frozen() { panic(…) }` (or .IsFrozen / .frozen.Load / .serving.Load)
//	reg:<Type>.<m>     a call of method m of the router layer through a field of the receiver (a.router.GET → Router.GET,
//	                   g.router.GET → Group.GET, vg.versionRouter.GET → VersionRouter.GET): guarded or not is looked up in
//	                   Gen/Guards.lean by the Tie theorem
//	write:<target>     an assignment / append whose target is rooted at the receiver (a.hooks.onStart = …)
//	doc                a call of AddOperation (the OpenAPI state the app serves under its specification path)
//	hook               a call of fireRouteHook (user callbacks run for the route)
//
// The obligation (Tie/C12App.lean): the first write / doc / hook of a method is preceded by a guard or by a guarded
// router-layer registration — so that a rejected late registration leaves no trace in the app either.
// Never exits: a problem is recorded inside the generated file.

import (
	"fmt"
	"go/ast"
	"go/token"
	"path/filepath"
	"sort"
	"strings"
)

var appGuardTypes = []string{"App", "Group", "VersionGroup"}

type appGuardX struct {
	p      *pkg
	fields map[string]map[string]string // app type -> field name -> router-layer type name ("" = not a router-layer pointer)
	depth  int
}

func fieldRouterType(t ast.Expr) string {
	if s, ok := t.(*ast.StarExpr); ok {
		t = s.X
	}
	if sel, ok := t.(*ast.SelectorExpr); ok {
		if id, ok := sel.X.(*ast.Ident); ok && (id.Name == "router" || id.Name == "route") {
			return sel.Sel.Name
		}
	}
	return ""
}

func isFrozenTest(e ast.Expr) bool {
	found := false
	ast.Inspect(e, func(n ast.Node) bool {
		if c, ok := n.(*ast.CallExpr); ok {
			if sel, ok := c.Fun.(*ast.SelectorExpr); ok {
				switch sel.Sel.Name {
				case "Frozen", "IsFrozen":
					found = true
				case "Load":
					if in, ok := sel.X.(*ast.SelectorExpr); ok && (in.Sel.Name == "frozen" || in.Sel.Name == "serving") {
						found = true
					}
				}
			}
		}
		return true
	})
	return found
}

func endsInPanicOrReturn(b *ast.BlockStmt) bool {
	if len(b.List) == 0 {
		return false
	}
	switch v := b.List[len(b.List)-1].(type) {
	case *ast.ReturnStmt:
		return true
	case *ast.ExprStmt:
		if c, ok := v.X.(*ast.CallExpr); ok {
			if id, ok := c.Fun.(*ast.Ident); ok && id.Name == "panic" {
				return true
			}
		}
	}
	return false
}

// selPath: a.b.c -> ["a","b","c"]; nil when the expression is not a plain selector chain.
func selPath(e ast.Expr) []string {
	switch v := e.(type) {
	case *ast.Ident:
		return []string{v.Name}
	case *ast.SelectorExpr:
		p := selPath(v.X)
		if p == nil {
			return nil
		}
		return append(p, v.Sel.Name)
	}
	return nil
}

func (x *appGuardX) events(recvType string, d *ast.FuncDecl, seen map[string]bool) []string {
	key := recvType + "." + d.Name.Name
	if seen[key] || x.depth > 6 {
		return nil
	}
	seen[key] = true
	defer delete(seen, key)
	x.depth++
	defer func() { x.depth-- }()
	recv := recvName(d)
	var evs []string
	var walk func(n ast.Node, top bool)
	call := func(c *ast.CallExpr) {
		path := selPath(c.Fun)
		if path == nil {
			return
		}
		name := path[len(path)-1]
		switch name {
		case "AddOperation":
			evs = append(evs, "doc")
			return
		case "fireRouteHook":
			evs = append(evs, "hook")
			return
		}
		if len(path) < 2 || path[0] != recv {
			return
		}
		// recv.m(…): a method of the same app type
		if len(path) == 2 {
			if md := x.p.methods[recvType][name]; md != nil {
				evs = append(evs, x.events(recvType, md, seen)...)
			}
			return
		}
		// recv.<field>.m(…): a router-layer method, or a method of another app type (g.app.X)
		ft := x.fields[recvType][path[1]]
		if len(path) == 3 && ft != "" {
			evs = append(evs, "reg:"+ft+"."+name)
			return
		}
		if len(path) == 3 {
			for _, t := range appGuardTypes {
				if md := x.p.methods[t][name]; md != nil && strings.EqualFold(path[1], t) {
					evs = append(evs, x.events(t, md, seen)...)
					return
				}
			}
		}
	}
	walk = func(n ast.Node, top bool) {
		switch v := n.(type) {
		case nil:
			return
		case *ast.BlockStmt:
			for _, s := range v.List {
				walk(s, top)
			}
		case *ast.IfStmt:
			if top && isFrozenTest(v.Cond) && endsInPanicOrReturn(v.Body) {
				evs = append(evs, "guard")
				return
			}
			if v.Init != nil {
				walk(v.Init, false)
			}
			ast.Inspect(v.Cond, func(m ast.Node) bool {
				if c, ok := m.(*ast.CallExpr); ok {
					call(c)
				}
				return true
			})
			walk(v.Body, false)
			if v.Else != nil {
				walk(v.Else, false)
			}
		case *ast.AssignStmt:
			for _, r := range v.Rhs {
				walk(r, false)
			}
			for _, l := range v.Lhs {
				if p := selPath(l); len(p) >= 2 && p[0] == recv {
					evs = append(evs, "write:"+strings.Join(p[1:], "."))
				} else if ix, ok := l.(*ast.IndexExpr); ok {
					if p := selPath(ix.X); len(p) >= 2 && p[0] == recv {
						evs = append(evs, "write:"+strings.Join(p[1:], ".")+"[]")
					}
				}
			}
		case *ast.FuncLit:
			return // a closure handed on: not executed here
		case *ast.CallExpr:
			for _, a := range v.Args {
				walk(a, false)
			}
			walk(v.Fun, false)
			call(v)
		case *ast.DeferStmt:
			return // unlocks
		default:
			// every other node: visit children in source order
			ast.Inspect(n, func(m ast.Node) bool {
				if m == n || m == nil {
					return true
				}
				switch m.(type) {
				case *ast.BlockStmt, *ast.IfStmt, *ast.AssignStmt, *ast.FuncLit, *ast.CallExpr, *ast.DeferStmt:
					walk(m, false)
					return false
				}
				return true
			})
		}
	}
	walk(d.Body, true)
	return evs
}

func genAppGuards(repo string) (out string) {
	defer func() {
		if r := recover(); r != nil {
			fe, ok := r.(fatalErr)
			if !ok {
				panic(r)
			}
			out = "/- GENERATED by extract/appguards.go — the extraction FAILED (fails closed) -/\nnamespace Rivaas.Gen.AppGuards\n" +
				"def extractError : String := " + leanStr(fe.msg) + "\nend Rivaas.Gen.AppGuards\n"
		}
	}()
	p := parseDir(filepath.Join(repo, "app"))
	x := &appGuardX{p: p, fields: map[string]map[string]string{}}
	for _, t := range appGuardTypes {
		st := p.structs[t]
		if st == nil {
			fatalf(token.NoPos, "appguards: struct %s not found in app", t)
		}
		x.fields[t] = map[string]string{}
		for _, f := range st.Fields.List {
			for _, n := range f.Names {
				x.fields[t][n.Name] = fieldRouterType(f.Type)
			}
		}
	}
	var b strings.Builder
	b.WriteString("/- GENERATED by extract/appguards.go from app/*.go of the current working tree — do not edit, not committed.\n")
	b.WriteString("   Exported methods of app.App / app.Group / app.VersionGroup: guards, router-layer calls, writes of app state, OpenAPI\n")
	b.WriteString("   operations and route hooks in source order (calls to methods of the three types inlined). -/\nnamespace Rivaas.Gen.AppGuards\n\n")
	b.WriteString("/-- (receiver type, method, events); an event is (kind, a, b): (\"guard\",_,_), (\"reg\", router-layer type, method),\n    (\"write\", target, _), (\"doc\",_,_), (\"hook\",_,_) -/\ndef appMethods : List (String × String × List (String × String × String)) := [")
	first := true
	n := 0
	for _, t := range appGuardTypes {
		var names []string
		for name := range p.methods[t] {
			if ast.IsExported(name) {
				names = append(names, name)
			}
		}
		sort.Strings(names)
		for _, name := range names {
			evs := x.events(t, p.methods[t][name], map[string]bool{})
			interesting := false
			for _, e := range evs {
				if e == "doc" || e == "hook" || e == "guard" || strings.HasPrefix(e, "write:") || strings.HasPrefix(e, "reg:") {
					interesting = true
				}
			}
			if !interesting {
				continue
			}
			if !first {
				b.WriteString(",")
			}
			first = false
			n++
			var q []string
			for _, e := range evs {
				kind, a, bb := e, "", ""
				if i := strings.IndexByte(e, ':'); i >= 0 {
					kind, a = e[:i], e[i+1:]
					if kind == "reg" {
						j := strings.IndexByte(a, '.')
						a, bb = a[:j], a[j+1:]
					}
				}
				q = append(q, "("+leanStr(kind)+", "+leanStr(a)+", "+leanStr(bb)+")")
			}
			fmt.Fprintf(&b, "\n  (%s, %s, [%s])", leanStr(t), leanStr(name), strings.Join(q, ", "))
		}
	}
	b.WriteString("]\n\n")
	routerPkg := parseDir(filepath.Join(repo, "router"))
	b.WriteString(lockFacts(routerPkg))
	b.WriteString(phaseFacts(routerPkg))
	b.WriteString("end Rivaas.Gen.AppGuards\n")
	if n == 0 {
		fatalf(token.NoPos, "appguards: no app-layer methods found")
	}
	return b.String()
}

// lockFacts: for every function of package router that writes a route's reverse pattern (SetReversePattern) or builds a
// URL from one (BuildURL): the lock operations on mutex fields and those calls, in source order (function literals
// entered: the body of freezeOnce.Do). Events: (op, mutex field) with op in lock / rlock / unlock / runlock /
// defer-unlock / defer-runlock, and ("write", "reversePattern"), ("build", "url").
func lockFacts(p *pkg) string {
	type fn struct {
		name string
		evs  [][2]string
	}
	var out []fn
	collect := func(name string, d *ast.FuncDecl) {
		var evs [][2]string
		relevant := false
		var visit func(n ast.Node, deferred bool)
		depth := 0
		pendingDefers := map[int][][2]string{}
		active := map[*ast.FuncDecl]bool{d: true}
		// callee: a method of the same receiver type called on the receiver itself (r.helper(…))
		recvT, recvN := "", recvName(d)
		if d.Recv != nil {
			recvT = recvType(d)
		}
		callee := func(x ast.Expr, name string) *ast.FuncDecl {
			if id, ok := x.(*ast.Ident); ok && recvT != "" && id.Name == recvN {
				return p.methods[recvT][name]
			}
			return nil
		}
		visit = func(n ast.Node, deferred bool) {
			ast.Inspect(n, func(m ast.Node) bool {
				switch v := m.(type) {
				case *ast.DeferStmt:
					visit(v.Call, true)
					return false
				case *ast.CallExpr:
					for _, a := range v.Args {
						visit(a, false)
					}
					if sel, ok := v.Fun.(*ast.SelectorExpr); ok {
						op := ""
						switch sel.Sel.Name {
						case "Lock":
							op = "lock"
						case "RLock":
							op = "rlock"
						case "Unlock":
							op = "unlock"
						case "RUnlock":
							op = "runlock"
						case "SetReversePattern":
							evs = append(evs, [2]string{"write", "reversePattern"})
							relevant = true
						case "BuildURL":
							evs = append(evs, [2]string{"build", "url"})
							relevant = true
						}
						if op != "" {
							if pth := selPath(sel.X); len(pth) >= 2 {
								switch {
								case deferred && depth > 0:
									// deferred inside an inlined helper: runs when the helper returns
									pendingDefers[depth] = append(pendingDefers[depth], [2]string{op, pth[len(pth)-1]})
								case deferred:
									evs = append(evs, [2]string{"defer-" + op, pth[len(pth)-1]})
								default:
									evs = append(evs, [2]string{op, pth[len(pth)-1]})
								}
							}
						} else if cd := callee(sel.X, sel.Sel.Name); cd != nil && !active[cd] && depth < 3 && !deferred {
							// a helper of the same receiver: its lock operations happen here
							active[cd] = true
							depth++
							visit(cd.Body, false)
							for i := len(pendingDefers[depth]) - 1; i >= 0; i-- {
								evs = append(evs, pendingDefers[depth][i])
							}
							delete(pendingDefers, depth)
							depth--
							delete(active, cd)
						}
						visit(sel.X, false)
					}
					return false
				}
				return true
			})
		}
		visit(d.Body, false)
		if relevant {
			out = append(out, fn{name, evs})
		}
	}
	for rt, ms := range p.methods {
		for name, d := range ms {
			collect(rt+"."+name, d)
		}
	}
	for name, d := range p.funcs {
		collect(name, d)
	}
	sort.Slice(out, func(i, j int) bool { return out[i].name < out[j].name })
	var b strings.Builder
	b.WriteString("/-- functions of package router that write a reverse pattern or build a URL from one: lock operations and those\n    calls in source order -/\ndef reverseLockEvents : List (String × List (String × String)) := [")
	for i, f := range out {
		if i > 0 {
			b.WriteString(",")
		}
		var q []string
		for _, e := range f.evs {
			q = append(q, "("+leanStr(e[0])+", "+leanStr(e[1])+")")
		}
		fmt.Fprintf(&b, "\n  (%s, [%s])", leanStr(f.name), strings.Join(q, ", "))
	}
	b.WriteString("]\n\n")
	return b.String()
}

// phaseFacts: the order of the phase-relevant operations inside the functions the C12 phase model mirrors step by step:
// lock operations on mutex fields, stores / loads of the flags serving / frozen / warmedUp, verifYield points, calls of
// Freeze / Warmup / doWarmup / RegisterRoute / CompileAllRoutes / enqueueRoute / Once.Do, panic, writes of pendingRoutes —
// in source order, function literals entered (the bodies handed to Once.Do).
func phaseFacts(p *pkg) string {
	fns := [][2]string{{"Router", "Freeze"}, {"Router", "Warmup"}, {"Router", "doWarmup"}, {"Router", "ServeHTTP"},
		{"Router", "enqueueRoute"}, {"Router", "addRouteInternal"}}
	flags := map[string]bool{"serving": true, "frozen": true, "warmedUp": true}
	calls := map[string]bool{"Freeze": true, "Warmup": true, "doWarmup": true, "RegisterRoute": true, "CompileAllRoutes": true, "enqueueRoute": true, "Do": true}
	var b strings.Builder
	b.WriteString("/-- phase-relevant operations of the functions the phase model mirrors, in source order -/\ndef phaseEvents : List (String × List (String × String)) := [")
	for i, fn := range fns {
		d := p.fn(fn[0], fn[1])
		var evs [][2]string
		add := func(k, a string) { evs = append(evs, [2]string{k, a}) }
		recvN := recvName(d)
		depth := 0
		pendingDefers := map[int][][2]string{}
		active := map[string]bool{fn[1]: true}
		var visit func(n ast.Node, deferred bool)
		visit = func(n ast.Node, deferred bool) {
			ast.Inspect(n, func(m ast.Node) bool {
				switch v := m.(type) {
				case *ast.DeferStmt:
					visit(v.Call, true)
					return false
				case *ast.ReturnStmt:
					for _, r := range v.Results {
						visit(r, false)
					}
					if depth == 0 { // a return inside an inlined helper only leaves the helper
						add("return", "")
					}
					return false
				case *ast.AssignStmt:
					for _, r := range v.Rhs {
						visit(r, false)
					}
					for _, l := range v.Lhs {
						if pth := selPath(l); len(pth) >= 2 {
							switch last := pth[len(pth)-1]; {
							case flags[last]:
								add("store", last)
							case last == "pendingRoutes":
								add("write", last)
							}
						}
					}
					return false
				case *ast.SelectorExpr:
					if pth := selPath(v); len(pth) >= 2 && pth[len(pth)-1] == "warmedUp" {
						add("load", "warmedUp") // a plain field read (under pendingRoutesMu)
					}
					return true
				case *ast.CallExpr:
					if id, ok := v.Fun.(*ast.Ident); ok {
						switch id.Name {
						case "panic":
							add("panic", "")
						case "verifYield":
							if len(v.Args) == 1 {
								if sv, ok := strLit(v.Args[0]); ok {
									add("yield", sv)
								}
							}
						}
						for _, a := range v.Args {
							visit(a, false)
						}
						return false
					}
					sel, ok := v.Fun.(*ast.SelectorExpr)
					if !ok {
						return true
					}
					pth := selPath(sel.X)
					name := sel.Sel.Name
					op := map[string]string{"Lock": "lock", "RLock": "rlock", "Unlock": "unlock", "RUnlock": "runlock"}[name]
					switch {
					case op != "" && len(pth) >= 2:
						switch {
						case deferred && depth > 0:
							pendingDefers[depth] = append(pendingDefers[depth], [2]string{op, pth[len(pth)-1]})
						case deferred:
							add("defer-"+op, pth[len(pth)-1])
						default:
							add(op, pth[len(pth)-1])
						}
					case (name == "Store" || name == "Load") && len(pth) >= 2 && flags[pth[len(pth)-1]]:
						add(strings.ToLower(name), pth[len(pth)-1])
					case calls[name] && len(pth) >= 1:
						who := name
						if len(pth) >= 2 {
							who = pth[len(pth)-1] + "." + name
						}
						add("call", who)
					default:
						// an unlisted helper of the same receiver (r.helper(…)): what it does happens here
						if id, ok := sel.X.(*ast.Ident); ok && id.Name == recvN && !deferred && depth < 2 && !active[name] {
							if hd := p.methods[fn[0]][name]; hd != nil && recvName(hd) != "" {
								for _, a := range v.Args {
									visit(a, false)
								}
								active[name] = true
								depth++
								saved := recvN
								recvN = recvName(hd)
								visit(hd.Body, false)
								for i := len(pendingDefers[depth]) - 1; i >= 0; i-- {
									evs = append(evs, pendingDefers[depth][i])
								}
								delete(pendingDefers, depth)
								recvN = saved
								depth--
								delete(active, name)
								return false
							}
						}
						visit(sel.X, false)
					}
					for _, a := range v.Args {
						visit(a, false)
					}
					return false
				}
				return true
			})
		}
		visit(d.Body, false)
		if i > 0 {
			b.WriteString(",")
		}
		var q []string
		for _, e := range evs {
			q = append(q, "("+leanStr(e[0])+", "+leanStr(e[1])+")")
		}
		fmt.Fprintf(&b, "\n  (%s, [%s])", leanStr(fn[0]+"."+fn[1]), strings.Join(q, ", "))
	}
	b.WriteString("]\n\n")
	return b.String()
}
