package main

// Gen/Routing.lean (C01, C11): structural facts of the route lookup — the order of the decision chains of
// router/radix.go (getRoute, addRouteWithConstraints, bindParamNames), of the lookup stages of
// (*Router).ServeHTTP (router/serve.go) and of router/compiler (AddRoute, sortRoutesBySpecificity, LookupStatic,
// MatchDynamic). Things are located by structure (callee names, field names, statement shapes), never by the
// names of locals. Tie/C01Routing.lean and Tie/C11Routing.lean prove that the models (Model/Radix.lean,
// Model/Compiler.lean) take their decisions in the same order. Never exits: a form it does not recognise is
// recorded in `problem` (the Tie theorem `extraction_complete` then fails).

import (
	"fmt"
	"go/ast"
	"go/token"
	"path/filepath"
	"sort"
	"strings"
)

type routingGen struct {
	problems []string
	defs     []string
}

func (g *routingGen) fail(n ast.Node, format string, a ...any) {
	where := ""
	if n != nil && n.Pos().IsValid() {
		p := fset.Position(n.Pos())
		where = fmt.Sprintf("%s:%d: ", shortFile(p.Filename), p.Line)
	}
	panic(fatalErr{where + fmt.Sprintf(format, a...)})
}

// guard runs f; a failure is recorded, not fatal
func (g *routingGen) guard(what string, f func()) {
	defer func() {
		if r := recover(); r != nil {
			if fe, ok := r.(fatalErr); ok {
				g.problems = append(g.problems, what+": "+fe.msg)
				return
			}
			g.problems = append(g.problems, fmt.Sprintf("%s: %v", what, r))
		}
	}()
	f()
}

func (g *routingGen) strList(name, doc string, l []string) {
	q := make([]string, len(l))
	for i, s := range l {
		q[i] = leanStr(s)
	}
	g.defs = append(g.defs, fmt.Sprintf("/-- %s -/\ndef %s : List String := [%s]\n", doc, name, strings.Join(q, ", ")))
}

func (g *routingGen) str(name, doc, v string) {
	g.defs = append(g.defs, fmt.Sprintf("/-- %s -/\ndef %s : String := %s\n", doc, name, leanStr(v)))
}

func (g *routingGen) natList(name, doc string, l []string) {
	g.defs = append(g.defs, fmt.Sprintf("/-- %s -/\ndef %s : List Nat := [%s]\n", doc, name, strings.Join(l, ", ")))
}

func rtMethod(p *pkg, recv, name string) *ast.FuncDecl {
	if m := p.methods[recv]; m != nil {
		if d := m[name]; d != nil {
			return d
		}
	}
	panic(fatalErr{fmt.Sprintf("method (%s).%s not found in %s", recv, name, shortFile(p.dir))})
}

func rtFunc(p *pkg, name string) *ast.FuncDecl {
	if d := p.funcs[name]; d != nil {
		return d
	}
	panic(fatalErr{fmt.Sprintf("function %s not found in %s", name, shortFile(p.dir))})
}

// rtCallee: f(...) -> "f", x.y.f(...) -> "f"
func rtCallee(c *ast.CallExpr) string {
	switch f := c.Fun.(type) {
	case *ast.Ident:
		return f.Name
	case *ast.SelectorExpr:
		return f.Sel.Name
	}
	return ""
}

// rtMentions: does the expression contain a selector `.name`?
func rtMentions(n ast.Node, name string) bool {
	found := false
	ast.Inspect(n, func(x ast.Node) bool {
		if s, ok := x.(*ast.SelectorExpr); ok && s.Sel.Name == name {
			found = true
		}
		return !found
	})
	return found
}

func rtContainsCall(n ast.Node, name string) *ast.CallExpr {
	var hit *ast.CallExpr
	ast.Inspect(n, func(x ast.Node) bool {
		if c, ok := x.(*ast.CallExpr); ok && hit == nil && rtCallee(c) == name {
			hit = c
		}
		return hit == nil
	})
	return hit
}

func rtBlockReturns(b *ast.BlockStmt) bool {
	for _, s := range b.List {
		if _, ok := s.(*ast.ReturnStmt); ok {
			return true
		}
	}
	return false
}

// rtCmpLit: `x == "lit"` -> lit
func rtCmpLit(e ast.Expr) (string, bool) {
	b, ok := e.(*ast.BinaryExpr)
	if !ok || b.Op != token.EQL {
		return "", false
	}
	if l, ok := b.Y.(*ast.BasicLit); ok && l.Kind == token.STRING {
		return strings.Trim(l.Value, "\"`"), true
	}
	return "", false
}

// events of a block in source order: calls to the named functions (wherever they sit, also inside the
// condition of an `if`), and "return" for a return statement directly in the block
func (g *routingGen) blockEvents(b *ast.BlockStmt, calls ...string) []string {
	type ev struct {
		pos token.Pos
		s   string
	}
	var evs []ev
	want := map[string]bool{}
	for _, c := range calls {
		want[c] = true
	}
	ast.Inspect(b, func(x ast.Node) bool {
		if c, ok := x.(*ast.CallExpr); ok && want[rtCallee(c)] {
			evs = append(evs, ev{c.Pos(), rtCallee(c)})
		}
		return true
	})
	for _, s := range b.List {
		if r, ok := s.(*ast.ReturnStmt); ok {
			evs = append(evs, ev{r.Pos(), "return"})
		}
	}
	sort.Slice(evs, func(i, j int) bool { return evs[i].pos < evs[j].pos })
	out := make([]string, len(evs))
	for i, e := range evs {
		out[i] = e.s
	}
	return out
}

// the comparison `<ident> < N` / `i-8 < …` literals used as the inline-slot bound inside a function
func rtSlotBounds(fn *ast.FuncDecl) []string {
	var out []string
	ast.Inspect(fn.Body, func(x ast.Node) bool {
		if b, ok := x.(*ast.BinaryExpr); ok && b.Op == token.LSS {
			if l, ok := b.Y.(*ast.BasicLit); ok && l.Kind == token.INT {
				if _, isIdent := b.X.(*ast.Ident); isIdent {
					out = append(out, l.Value)
				}
			}
		}
		return true
	})
	return out
}

func genRouting(repo string) string {
	g := &routingGen{}
	var router, comp *pkg
	g.guard("router", func() { router = parseDir(filepath.Join(repo, "router")) })
	g.guard("router/compiler", func() { comp = parseDir(filepath.Join(repo, "router", "compiler")) })
	empty := &pkg{funcs: map[string]*ast.FuncDecl{}, methods: map[string]map[string]*ast.FuncDecl{}}
	if router == nil {
		router = empty
	}
	if comp == nil {
		comp = empty
	}

	// ---- (*node).getRoute: the tests that answer before the descent
	var prelude, chain, falls, accOrder, slots []string
	var armCalls []string
	var descendFn *ast.FuncDecl
	g.guard("getRoute", func() {
		fn := rtMethod(router, "node", "getRoute")
		for _, s := range fn.Body.List {
			is, ok := s.(*ast.IfStmt)
			if !ok {
				continue
			}
			if lit, ok := rtCmpLit(is.Cond); ok && rtBlockReturns(is.Body) {
				switch lit {
				case "/":
					prelude = append(prelude, "root")
				case "":
					prelude = append(prelude, "empty")
				default:
					g.fail(is, "getRoute: unexpected literal test %q", lit)
				}
				continue
			}
			if rtMentions(is.Cond, "staticPaths") {
				prelude = append(prelude, "staticPaths")
				continue
			}
			// the call of the descent: `if leaf := n.<descend>(…); leaf != nil { return … }`
			if is.Init != nil {
				var call *ast.CallExpr
				ast.Inspect(is.Init, func(x ast.Node) bool {
					if c, ok := x.(*ast.CallExpr); ok && call == nil {
						call = c
					}
					return call == nil
				})
				if call != nil && rtBlockReturns(is.Body) {
					if m := router.methods["node"]; m != nil {
						if d := m[rtCallee(call)]; d != nil && rtContainsCall(d.Body, "findChild") != nil {
							descendFn = d
							prelude = append(prelude, "descend")
							continue
						}
					}
				}
			}
			answers := false
			ast.Inspect(is, func(x ast.Node) bool {
				if _, ok := x.(*ast.ReturnStmt); ok {
					answers = true
				}
				return !answers
			})
			if answers {
				g.fail(is, "getRoute: unrecognised answering test: %s", src(is.Cond))
			}
		}
		if descendFn == nil {
			g.fail(fn, "getRoute: no call of a node method that descends (one that calls findChild)")
		}
	})
	// ---- the descent: static child, parameter child, wildcard — each arm falls through to the next when it
	// does not find a route (backtracking) — then nil
	g.guard("descend", func() {
		if descendFn == nil {
			g.fail(nil, "descend: not located")
		}
		self := descendFn.Name.Name
		callsOf := func(b *ast.BlockStmt) string {
			type ev struct {
				pos token.Pos
				s   string
			}
			var evs []ev
			ast.Inspect(b, func(x ast.Node) bool {
				if c, ok := x.(*ast.CallExpr); ok {
					switch n := rtCallee(c); n {
					case "captureParam", "accepts", "dropCaptures":
						evs = append(evs, ev{c.Pos(), n})
					case self:
						evs = append(evs, ev{c.Pos(), "descend"})
					}
				}
				return true
			})
			sort.Slice(evs, func(i, j int) bool { return evs[i].pos < evs[j].pos })
			var w []string
			for _, e := range evs {
				w = append(w, e.s)
			}
			return strings.Join(w, ",")
		}
		lastIsReturn := func(b *ast.BlockStmt) bool {
			if len(b.List) == 0 {
				return false
			}
			_, ok := b.List[len(b.List)-1].(*ast.ReturnStmt)
			return ok
		}
		for _, s := range descendFn.Body.List {
			switch st := s.(type) {
			case *ast.IfStmt:
				label := ""
				switch {
				case st.Init != nil && rtContainsCall(st.Init, "findChild") != nil:
					label = "findChild"
				case st.Init == nil && rtMentions(st.Cond, "param") && !rtMentions(st.Cond, "wildcard"):
					label = "param"
				case st.Init == nil && rtMentions(st.Cond, "wildcard") && !rtMentions(st.Cond, "param"):
					label = "wildcard"
				}
				if label == "" {
					// a guard such as `if start >= pathLen { return nil }` before the first arm
					if len(chain) == 0 && rtBlockReturns(st.Body) && st.Else == nil {
						continue
					}
					g.fail(st, "descend: unrecognised if-statement: %s", src(st.Cond))
				}
				if st.Else != nil {
					g.fail(st, "descend: arm %s has an else (the arms are tried one after the other)", label)
				}
				chain = append(chain, label)
				if !lastIsReturn(st.Body) {
					falls = append(falls, label)
				}
				armCalls = append(armCalls, label+":"+callsOf(st.Body))
			case *ast.ReturnStmt:
				if len(chain) > 0 {
					chain = append(chain, "miss")
				}
			}
		}
		acc := rtMethod(router, "node", "accepts")
		type ev struct {
			pos token.Pos
			s   string
		}
		var evs []ev
		for _, s := range acc.Body.List {
			if is, ok := s.(*ast.IfStmt); ok && rtMentions(is.Cond, "handlers") && rtBlockReturns(is.Body) {
				evs = append(evs, ev{is.Pos(), "handlers"})
			}
		}
		ast.Inspect(acc.Body, func(x ast.Node) bool {
			if c, ok := x.(*ast.CallExpr); ok {
				if n := rtCallee(c); n == "bindParamNames" || n == "validateConstraints" {
					evs = append(evs, ev{c.Pos(), n})
				}
			}
			return true
		})
		sort.Slice(evs, func(i, j int) bool { return evs[i].pos < evs[j].pos })
		for _, e := range evs {
			accOrder = append(accOrder, e.s)
		}
	})
	// ---- the inline-slot bound wherever a slot is written under `if ident < N`
	g.guard("slot bounds", func() {
		var fns []*ast.FuncDecl
		for _, d := range router.funcs {
			fns = append(fns, d)
		}
		for _, m := range router.methods {
			for _, d := range m {
				fns = append(fns, d)
			}
		}
		sort.Slice(fns, func(i, j int) bool { return fns[i].Pos() < fns[j].Pos() })
		for _, fn := range fns {
			ast.Inspect(fn.Body, func(x ast.Node) bool {
				is, ok := x.(*ast.IfStmt)
				if !ok {
					return true
				}
				b, ok := is.Cond.(*ast.BinaryExpr)
				if !ok || b.Op != token.LSS {
					return true
				}
				l, ok := b.Y.(*ast.BasicLit)
				if !ok || l.Kind != token.INT {
					return true
				}
				writes := false
				for _, q := range is.Body.List {
					if as, ok := q.(*ast.AssignStmt); ok && len(as.Lhs) == 1 {
						if ix, ok := as.Lhs[0].(*ast.IndexExpr); ok && rtMentions(ix.X, "paramKeys") {
							writes = true
						}
					}
				}
				if writes {
					slots = append(slots, l.Value)
				}
				return true
			})
		}
	})
	g.strList("getRoutePrelude", "`(*node).getRoute`: the tests that answer, in order (`descend` = the call of the descent)", prelude)
	g.strList("descentChain", "the descent (`(*node).descend`): its arms in order, then the final `return nil`", chain)
	g.strList("descentFallsThrough", "the arms of the descent whose block does not end in a return: an arm that finds no route hands over to the next one", falls)
	g.strList("descentArmCalls", "per arm of the descent: its calls of captureParam / accepts / descend / dropCaptures in source order", armCalls)
	g.strList("acceptsOrder", "`(*node).accepts`: the nil-handlers test, bindParamNames, validateConstraints in source order", accOrder)
	g.natList("slotWriteBounds", "package router: the literal `N` of every `if ident < N { …paramKeys[…] = … }`", slots)

	// ---- bindParamNames
	var bindSlots []string
	var bindShape []string
	g.guard("bindParamNames", func() {
		fn := rtFunc(router, "bindParamNames")
		bindSlots = rtSlotBounds(fn)
		// for i, name := range names { if i < N { keys[i] = name } else if … { Params[name] = overflow[i-N] } }
		var rng *ast.RangeStmt
		for _, s := range fn.Body.List {
			if r, ok := s.(*ast.RangeStmt); ok {
				rng = r
			}
		}
		if rng == nil || len(rng.Body.List) != 1 {
			g.fail(fn, "bindParamNames: not a single range loop with one statement")
		}
		is, ok := rng.Body.List[0].(*ast.IfStmt)
		if !ok {
			g.fail(rng, "bindParamNames: loop body is not an if")
		}
		arm := func(b *ast.BlockStmt) string {
			var w []string
			ast.Inspect(b, func(x ast.Node) bool {
				if as, ok := x.(*ast.AssignStmt); ok && len(as.Lhs) == 1 {
					if ix, ok := as.Lhs[0].(*ast.IndexExpr); ok {
						if sel, ok := ix.X.(*ast.SelectorExpr); ok {
							w = append(w, sel.Sel.Name)
						}
					}
				}
				return true
			})
			return strings.Join(w, ",")
		}
		bindShape = append(bindShape, "inline:"+arm(is.Body))
		if e, ok := is.Else.(*ast.IfStmt); ok {
			bindShape = append(bindShape, "overflow:"+arm(e.Body))
			if e.Else != nil {
				g.fail(e, "bindParamNames: a third arm")
			}
		} else if b, ok := is.Else.(*ast.BlockStmt); ok {
			bindShape = append(bindShape, "overflow:"+arm(b))
		} else {
			g.fail(is, "bindParamNames: no overflow arm")
		}
	})
	g.natList("bindSlotBounds", "`bindParamNames`: every literal `N` of a comparison `ident < N`", bindSlots)
	g.strList("bindShape", "`bindParamNames`: per arm of the loop body, the indexed fields it assigns", bindShape)

	// ---- (*node).addRouteWithConstraints
	var branches, segArms []string
	var leafWrites [][]string
	g.guard("addRouteWithConstraints", func() {
		fn := rtMethod(router, "node", "addRouteWithConstraints")
		fieldsAssigned := func(n ast.Node) []string {
			seen := map[string]bool{}
			ast.Inspect(n, func(x ast.Node) bool {
				if as, ok := x.(*ast.AssignStmt); ok {
					for _, l := range as.Lhs {
						if sel, ok := l.(*ast.SelectorExpr); ok {
							switch sel.Sel.Name {
							case "handlers", "constraints", "path", "paramNames":
								seen[sel.Sel.Name] = true
							}
						}
					}
				}
				return true
			})
			var out []string
			for k := range seen {
				out = append(out, k)
			}
			sort.Strings(out)
			return out
		}
		for _, s := range fn.Body.List {
			switch st := s.(type) {
			case *ast.IfStmt:
				if lit, ok := rtCmpLit(st.Cond); ok && rtBlockReturns(st.Body) {
					if lit == "/" {
						branches = append(branches, "root")
					} else if lit == "" {
						branches = append(branches, "empty")
					} else {
						g.fail(st, "addRouteWithConstraints: unexpected literal test %q", lit)
					}
					leafWrites = append(leafWrites, fieldsAssigned(st.Body))
					continue
				}
				if st.Init != nil {
					if c := rtContainsCall(st.Init, "CutSuffix"); c != nil && len(c.Args) == 2 && src(c.Args[1]) == `"/*"` && rtBlockReturns(st.Body) {
						branches = append(branches, "wildcard")
						leafWrites = append(leafWrites, fieldsAssigned(st.Body))
						continue
					}
				}
				if c := rtContainsCall(st.Cond, "Contains"); c != nil && len(c.Args) == 2 && src(c.Args[1]) == `":"` && rtBlockReturns(st.Body) {
					if u, ok := st.Cond.(*ast.BinaryExpr); !ok || u.Op != token.LAND {
						g.fail(st, "addRouteWithConstraints: static test has an unexpected shape: %s", src(st.Cond))
					}
					if !rtMentions(st.Body, "staticPaths") {
						g.fail(st, "addRouteWithConstraints: static branch does not use staticPaths")
					}
					branches = append(branches, "static")
					leafWrites = append(leafWrites, fieldsAssigned(st.Body))
					continue
				}
				g.fail(st, "addRouteWithConstraints: unrecognised top-level test: %s", src(st.Cond))
			case *ast.RangeStmt:
				branches = append(branches, "standard")
				leafWrites = append(leafWrites, fieldsAssigned(st.Body))
				// arms of the segment classification inside the loop
				for _, b := range st.Body.List {
					is, ok := b.(*ast.IfStmt)
					if !ok {
						continue
					}
					if c := rtContainsCall(is.Cond, "HasPrefix"); c != nil && len(c.Args) == 2 && src(c.Args[1]) == `":"` {
						segArms = append(segArms, "param")
						if rtMentions(is.Body, "param") && is.Else != nil && rtContainsCall(is.Else, "findOrCreateChild") != nil {
							segArms = append(segArms, "static")
						} else {
							g.fail(is, "addRouteWithConstraints: segment arms are not param / findOrCreateChild")
						}
					}
				}
			}
		}
	})
	g.strList("insertBranches", "`(*node).addRouteWithConstraints`: the top-level cases in order (each of the first four returns)", branches)
	g.strList("insertSegArms", "`(*node).addRouteWithConstraints`, standard loop: `:`-prefixed segment → param child, otherwise findOrCreateChild", segArms)
	{
		var rows []string
		for _, r := range leafWrites {
			rows = append(rows, strings.Join(r, ","))
		}
		g.strList("insertLeafWrites", "per case of `insertBranches`: which of handlers / constraints / path / paramNames the case assigns", rows)
	}

	// ---- (*Router).Mount / mountRoute: how the prefix is normalised and joined with a sub-route's path
	var mountNorm, mountJoin []string
	g.guard("Mount", func() {
		fn := rtMethod(router, "Router", "Mount")
		if len(fn.Type.Params.List) == 0 || len(fn.Type.Params.List[0].Names) == 0 {
			g.fail(fn, "Mount: no named first parameter")
		}
		pfx := fn.Type.Params.List[0].Names[0].Name
		norm := func(n ast.Node) string { return strings.ReplaceAll(src(n), pfx, "$p") }
		for _, st := range fn.Body.List {
			switch q := st.(type) {
			case *ast.AssignStmt:
				if len(q.Lhs) == 1 && len(q.Rhs) == 1 && src(q.Lhs[0]) == pfx {
					if c, ok := q.Rhs[0].(*ast.CallExpr); ok && len(c.Args) == 2 && src(c.Args[0]) == pfx {
						mountNorm = append(mountNorm, rtCallee(c)+"("+src(c.Args[1])+")")
					} else {
						g.fail(q, "Mount: unrecognised assignment to the prefix: %s", src(q))
					}
				}
			case *ast.IfStmt:
				for _, b := range q.Body.List {
					if as, ok := b.(*ast.AssignStmt); ok && len(as.Lhs) == 1 && src(as.Lhs[0]) == pfx {
						mountNorm = append(mountNorm, "if "+norm(q.Cond)+" { "+norm(as)+" }")
					}
				}
			}
		}
		mr := rtMethod(router, "Router", "mountRoute")
		if len(mr.Type.Params.List) == 0 || len(mr.Type.Params.List[0].Names) == 0 {
			g.fail(mr, "mountRoute: no named first parameter")
		}
		mp := mr.Type.Params.List[0].Names[0].Name
		for _, st := range mr.Body.List {
			is, ok := st.(*ast.IfStmt)
			if !ok || rtContainsCall(is.Cond, "Path") == nil {
				continue
			}
			lit, ok := rtCmpLit(is.Cond)
			if !ok {
				g.fail(is, "mountRoute: the test on Path() is not a comparison with a literal")
			}
			arm := func(b *ast.BlockStmt) string {
				if len(b.List) != 1 {
					return "?"
				}
				as, ok := b.List[0].(*ast.AssignStmt)
				if !ok || len(as.Rhs) != 1 {
					return "?"
				}
				r := strings.ReplaceAll(src(as.Rhs[0]), mp, "$p")
				if i := strings.Index(r, "."); i >= 0 && strings.HasSuffix(r, ".Path()") { // `$p + rt.Path()` -> `$p + Path()`
					if j := strings.LastIndex(r[:len(r)-len(".Path()")], " "); j >= 0 {
						r = r[:j+1] + "Path()"
					}
				}
				return r
			}
			eb, ok := is.Else.(*ast.BlockStmt)
			if !ok {
				g.fail(is, "mountRoute: the test on Path() has no plain else")
			}
			mountJoin = append(mountJoin, "Path()=="+leanStr(lit)+":"+arm(is.Body), "else:"+arm(eb))
		}
	})
	g.strList("mountPrefixNorm", "`(*Router).Mount`: what happens to the prefix before the routes are merged, in order ($p = the prefix)", mountNorm)
	g.strList("mountJoin", "`(*Router).mountRoute`: the full path of a mounted route ($p = the normalised prefix)", mountJoin)

	// ---- (*Router).ServeHTTP: the order of the lookup stages
	var stages []string
	g.guard("ServeHTTP", func() {
		fn := rtMethod(router, "Router", "ServeHTTP")
		type ev struct {
			pos token.Pos
			s   string
		}
		var evs []ev
		seen := map[string]bool{}
		ast.Inspect(fn.Body, func(x ast.Node) bool {
			c, ok := x.(*ast.CallExpr)
			if !ok {
				return true
			}
			name := rtCallee(c)
			switch name {
			case "LookupStatic", "MatchDynamic":
			case "getRoute":
				if sel, ok := c.Fun.(*ast.SelectorExpr); ok && rtMentions(sel.X, "compiled") {
					name = "compiled.getRoute"
				}
			default:
				return true
			}
			if !seen[name] {
				seen[name] = true
				evs = append(evs, ev{c.Pos(), name})
			}
			return true
		})
		sort.Slice(evs, func(i, j int) bool { return evs[i].pos < evs[j].pos })
		for _, e := range evs {
			stages = append(stages, e.s)
		}
	})
	g.strList("serveStages", "`(*Router).ServeHTTP`: first call of each lookup in source order", stages)

	// ---- (*RouteCompiler).AddRoute
	var addArms []string
	g.guard("AddRoute", func() {
		fn := rtMethod(comp, "RouteCompiler", "AddRoute")
		var is *ast.IfStmt
		for _, s := range fn.Body.List {
			if i, ok := s.(*ast.IfStmt); ok {
				if is != nil {
					g.fail(i, "AddRoute: more than one if-statement")
				}
				is = i
			}
		}
		if is == nil || !rtMentions(is.Cond, "isStatic") {
			g.fail(fn, "AddRoute: first test is not on isStatic")
		}
		evs := func(b *ast.BlockStmt) string {
			var w []string
			for _, s := range b.List {
				switch st := s.(type) {
				case *ast.AssignStmt:
					if ix, ok := st.Lhs[0].(*ast.IndexExpr); ok {
						if sel, ok := ix.X.(*ast.SelectorExpr); ok {
							w = append(w, sel.Sel.Name+"[]=")
							continue
						}
					}
					if sel, ok := st.Lhs[0].(*ast.SelectorExpr); ok {
						if c, ok := st.Rhs[0].(*ast.CallExpr); ok && rtCallee(c) == "append" {
							w = append(w, sel.Sel.Name+"=append")
						} else {
							w = append(w, sel.Sel.Name+"="+src(st.Rhs[0]))
						}
					}
				case *ast.ExprStmt:
					if c, ok := st.X.(*ast.CallExpr); ok {
						if sel, ok := c.Fun.(*ast.SelectorExpr); ok {
							if in, ok := sel.X.(*ast.SelectorExpr); ok {
								w = append(w, in.Sel.Name+"."+sel.Sel.Name)
							} else {
								w = append(w, sel.Sel.Name)
							}
						}
					}
				}
			}
			return strings.Join(w, ";")
		}
		addArms = append(addArms, "isStatic:"+evs(is.Body))
		e, ok := is.Else.(*ast.IfStmt)
		if !ok || e.Else != nil {
			g.fail(is, "AddRoute: expected exactly `if isStatic {…} else if !hasWildcard {…}`")
		}
		u, ok := e.Cond.(*ast.UnaryExpr)
		if !ok || u.Op != token.NOT || !rtMentions(u.X, "hasWildcard") {
			g.fail(e, "AddRoute: second test is not !hasWildcard")
		}
		addArms = append(addArms, "!hasWildcard:"+evs(e.Body))
	})
	g.strList("addRouteArms", "`(*RouteCompiler).AddRoute`: condition and effects of each arm", addArms)

	// ---- sortRoutesBySpecificity: the shift condition of the insertion sort
	var sortKey, sortShift string
	g.guard("sortRoutesBySpecificity", func() {
		fn := rtMethod(comp, "RouteCompiler", "sortRoutesBySpecificity")
		var inner *ast.ForStmt
		ast.Inspect(fn.Body, func(x ast.Node) bool {
			if f, ok := x.(*ast.ForStmt); ok && f.Init == nil && f.Post == nil && f.Cond != nil {
				inner = f
			}
			return true
		})
		if inner == nil {
			g.fail(fn, "sortRoutesBySpecificity: no inner shifting loop")
		}
		and, ok := inner.Cond.(*ast.BinaryExpr)
		if !ok || and.Op != token.LAND {
			g.fail(inner, "sortRoutesBySpecificity: shifting condition is not `j >= 0 && …`")
		}
		cmp, ok := and.Y.(*ast.BinaryExpr)
		if !ok {
			g.fail(inner, "sortRoutesBySpecificity: no comparison in the shifting condition")
		}
		l, ok := cmp.X.(*ast.CallExpr)
		if !ok || rtCallee(l) != "len" || len(l.Args) != 1 {
			g.fail(cmp, "sortRoutesBySpecificity: left side is not len(…)")
		}
		sel, ok := l.Args[0].(*ast.SelectorExpr)
		if !ok {
			g.fail(cmp, "sortRoutesBySpecificity: len of something that is not a field")
		}
		sortKey = "len(" + sel.Sel.Name + ")"
		sortShift = cmp.Op.String()
		// the right side must be the same measure of the element being inserted
		id, ok := cmp.Y.(*ast.Ident)
		if !ok {
			g.fail(cmp, "sortRoutesBySpecificity: right side is not a local")
		}
		okDef := false
		ast.Inspect(fn.Body, func(x ast.Node) bool {
			if as, ok := x.(*ast.AssignStmt); ok && len(as.Lhs) == 1 && len(as.Rhs) == 1 {
				if li, ok := as.Lhs[0].(*ast.Ident); ok && li.Name == id.Name {
					if c, ok := as.Rhs[0].(*ast.CallExpr); ok && rtCallee(c) == "len" && len(c.Args) == 1 {
						if s2, ok := c.Args[0].(*ast.SelectorExpr); ok && s2.Sel.Name == sel.Sel.Name {
							okDef = true
						}
					}
				}
			}
			return true
		})
		if !okDef {
			g.fail(cmp, "sortRoutesBySpecificity: the inserted element is not measured by the same field")
		}
	})
	g.str("sortKey", "`sortRoutesBySpecificity`: the measure compared", sortKey)
	g.str("sortShiftWhile", "`sortRoutesBySpecificity`: an earlier element is shifted right while `measure(earlier) OP measure(inserted)`", sortShift)

	// ---- LookupStatic: direct map below the threshold, else bloom test before the map
	var lookupStatic []string
	g.guard("LookupStatic", func() {
		fn := rtMethod(comp, "RouteCompiler", "LookupStatic")
		for _, s := range fn.Body.List {
			switch st := s.(type) {
			case *ast.IfStmt:
				if b, ok := st.Cond.(*ast.BinaryExpr); ok && b.Op == token.LSS && rtContainsCall(b.X, "len") != nil && rtMentions(b.X, "staticRoutes") && rtBlockReturns(st.Body) {
					lookupStatic = append(lookupStatic, "len(staticRoutes)<"+src(b.Y)+":map")
				} else if u, ok := st.Cond.(*ast.UnaryExpr); ok && u.Op == token.NOT && rtMentions(u.X, "staticBloom") && rtBlockReturns(st.Body) {
					lookupStatic = append(lookupStatic, "!bloom:nil")
				}
			case *ast.ReturnStmt:
				if len(st.Results) == 1 && rtMentions(st.Results[0], "staticRoutes") {
					lookupStatic = append(lookupStatic, "map")
				}
			}
		}
	})
	g.strList("lookupStaticOrder", "`(*RouteCompiler).LookupStatic` after the hash is computed: the answering statements in order", lookupStatic)

	// ---- MatchDynamic: index (ASCII first byte) first, then the linear scan; both test the method before the path
	var matchDyn []string
	g.guard("MatchDynamic", func() {
		fn := rtMethod(comp, "RouteCompiler", "MatchDynamic")
		scanCond := func(r *ast.RangeStmt) string {
			for _, s := range r.Body.List {
				if is, ok := s.(*ast.IfStmt); ok {
					if b, ok := is.Cond.(*ast.BinaryExpr); ok && b.Op == token.LAND && rtMentions(b.X, "method") && rtContainsCall(b.Y, "matchAndExtract") != nil {
						return "method&&matchAndExtract"
					}
					return src(is.Cond)
				}
			}
			return "?"
		}
		for _, s := range fn.Body.List {
			switch st := s.(type) {
			case *ast.IfStmt:
				if rtMentions(st.Cond, "hasFirstSegmentIndex") && !rtMentions(st.Cond, "dynamicRoutes") {
					// inside: `if firstChar < 128 { for candidates … ; return nil }`
					var inner *ast.IfStmt
					for _, q := range st.Body.List {
						if i, ok := q.(*ast.IfStmt); ok {
							inner = i
						}
					}
					if inner == nil {
						g.fail(st, "MatchDynamic: index block without the ASCII test")
					}
					b, ok := inner.Cond.(*ast.BinaryExpr)
					if !ok || b.Op != token.LSS {
						g.fail(inner, "MatchDynamic: ASCII test has an unexpected shape")
					}
					var rng *ast.RangeStmt
					for _, q := range inner.Body.List {
						if r, ok := q.(*ast.RangeStmt); ok {
							rng = r
						}
					}
					if rng == nil || !rtBlockReturns(inner.Body) {
						g.fail(inner, "MatchDynamic: index block does not scan its bucket and return")
					}
					matchDyn = append(matchDyn, "index[first<"+src(b.Y)+"]:"+scanCond(rng)+":return")
				}
			case *ast.RangeStmt:
				if rtMentions(st.X, "dynamicRoutes") {
					matchDyn = append(matchDyn, "scan:"+scanCond(st))
				}
			}
		}
	})
	g.strList("matchDynamicOrder", "`(*RouteCompiler).MatchDynamic`: the candidate scans in order", matchDyn)

	var b strings.Builder
	b.WriteString("/- GENERATED by extract/routing.go from router/radix.go, router/serve.go, router/compiler/*.go of the current working tree — do not edit, not committed. -/\n")
	b.WriteString("namespace Rivaas.Gen.Routing\n\n")
	if len(g.problems) == 0 {
		b.WriteString("/-- the extractor recognised every form it was asked for -/\ndef problem : Option String := none\n\n")
	} else {
		b.WriteString("/-- the extractor met a form it does not recognise (fails closed through Tie `extraction_complete`) -/\ndef problem : Option String := some " + leanStr(strings.Join(g.problems, " | ")) + "\n\n")
	}
	for _, d := range g.defs {
		b.WriteString(d + "\n")
	}
	b.WriteString("end Rivaas.Gen.Routing\n")
	return b.String()
}
