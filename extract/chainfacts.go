package main

// Gen/ChainFacts.lean (C02 / C10): structural facts of the code the chain machine and the timeout model
// rely on — `(*Context).Next` and `Abort` (router/context.go), the closure `recovery.New` returns,
// `handlePanic` and `defaultHandler` (middleware/recovery), the closure `timeout.New` returns and the
// methods of its `timeoutWriter` (middleware/timeout), and where `app.New` installs the default
// middleware (app/app.go).
//
// A function is rendered as a FLAT TOKEN LIST: one token per simple statement (its source text on one
// line), and for every compound statement an opening token (`if <cond> {`, `for <cond> {`, `select {`,
// `case <comm> {`, `go {`, `defer {` …), the tokens of its body, and `}`. Names of locals never matter:
// parameters, receivers and every identifier declared inside the function are replaced by `_1`, `_2`, …
// in the order in which they first occur IN THE KEPT TOKENS. Only tokens that mention one of the
// keywords of the function's vocabulary are kept (and the compound statements around them), so that a
// new log line, a metric or a comment does not change the list, while a dropped / moved / added check,
// a changed condition, another order of the kept statements or another select arm does.
// Tie/C10Chain.lean and Tie/C02Chain.lean state what the models rely on. Never makes the extractor exit:
// an unknown statement form is recorded, the generated file then carries `problem := some …` and the
// Tie theorem `extraction_complete` no longer holds.

import (
	"fmt"
	"go/ast"
	"go/scanner"
	"go/token"
	"path/filepath"
	"strings"
)

type cfErr struct{ msg string }

func cfFail(n ast.Node, format string, a ...any) {
	where := ""
	if n != nil && n.Pos().IsValid() {
		p := fset.Position(n.Pos())
		where = fmt.Sprintf("%s:%d: ", shortFile(p.Filename), p.Line)
	}
	panic(cfErr{where + fmt.Sprintf(format, a...)})
}

type cfTok struct {
	text  string
	open  bool // opens a compound statement
	close bool
}

type cfWalker struct {
	locals map[string]bool
	out    []cfTok
}

func (w *cfWalker) declare(names ...*ast.Ident) {
	for _, n := range names {
		if n != nil && n.Name != "_" {
			w.locals[n.Name] = true
		}
	}
}

func (w *cfWalker) declareFields(fl *ast.FieldList) {
	if fl == nil {
		return
	}
	for _, f := range fl.List {
		w.declare(f.Names...)
	}
}

// collect finds every identifier declared inside n (:=, var, range, function literal parameters).
func (w *cfWalker) collect(n ast.Node) {
	ast.Inspect(n, func(x ast.Node) bool {
		switch s := x.(type) {
		case *ast.AssignStmt:
			if s.Tok == token.DEFINE {
				for _, l := range s.Lhs {
					if id, ok := l.(*ast.Ident); ok {
						w.declare(id)
					}
				}
			}
		case *ast.ValueSpec:
			w.declare(s.Names...)
		case *ast.RangeStmt:
			if s.Tok == token.DEFINE {
				if id, ok := s.Key.(*ast.Ident); ok {
					w.declare(id)
				}
				if id, ok := s.Value.(*ast.Ident); ok {
					w.declare(id)
				}
			}
		case *ast.FuncLit:
			w.declareFields(s.Type.Params)
			w.declareFields(s.Type.Results)
		}
		return true
	})
}

// text renders a node on one line, every local identifier marked as ‹name› (numbered later).
func (w *cfWalker) text(n ast.Node) string {
	s := src(n)
	var sc scanner.Scanner
	fs := token.NewFileSet()
	f := fs.AddFile("", fs.Base(), len(s))
	sc.Init(f, []byte(s), nil, 0)
	var b strings.Builder
	last := 0
	prev := token.ILLEGAL
	for {
		pos, tok, lit := sc.Scan()
		if tok == token.EOF {
			break
		}
		off := f.Offset(pos)
		if tok == token.IDENT && prev != token.PERIOD && w.locals[lit] {
			b.WriteString(s[last:off])
			b.WriteString("‹" + lit + "›")
			last = off + len(lit)
		}
		if tok != token.SEMICOLON || lit != "\n" {
			prev = tok
		}
	}
	b.WriteString(s[last:])
	return b.String()
}

func (w *cfWalker) leaf(n ast.Node)  { w.out = append(w.out, cfTok{text: w.text(n)}) }
func (w *cfWalker) openTok(s string) { w.out = append(w.out, cfTok{text: s, open: true}) }
func (w *cfWalker) closeTok()        { w.out = append(w.out, cfTok{text: "}", close: true}) }
func (w *cfWalker) block(list []ast.Stmt) {
	for _, s := range list {
		w.stmt(s)
	}
}

func (w *cfWalker) funcLitCall(c *ast.CallExpr) *ast.FuncLit {
	if fl, ok := c.Fun.(*ast.FuncLit); ok && len(c.Args) == 0 {
		return fl
	}
	return nil
}

func (w *cfWalker) stmt(s ast.Stmt) {
	switch s := s.(type) {
	case nil, *ast.EmptyStmt:
	case *ast.ExprStmt, *ast.AssignStmt, *ast.IncDecStmt, *ast.SendStmt, *ast.ReturnStmt, *ast.DeclStmt, *ast.BranchStmt:
		w.leaf(s)
	case *ast.BlockStmt:
		w.block(s.List)
	case *ast.GoStmt:
		if fl := w.funcLitCall(s.Call); fl != nil {
			w.openTok("go {")
			w.block(fl.Body.List)
			w.closeTok()
		} else {
			w.leaf(s)
		}
	case *ast.DeferStmt:
		if fl := w.funcLitCall(s.Call); fl != nil {
			w.openTok("defer {")
			w.block(fl.Body.List)
			w.closeTok()
		} else {
			w.leaf(s)
		}
	case *ast.IfStmt:
		w.stmt(s.Init)
		w.openTok("if " + w.text(s.Cond) + " {")
		w.block(s.Body.List)
		w.closeTok()
		if s.Else != nil {
			w.openTok("else {")
			w.stmt(s.Else)
			w.closeTok()
		}
	case *ast.ForStmt:
		w.stmt(s.Init)
		c := ""
		if s.Cond != nil {
			c = w.text(s.Cond) + " "
		}
		w.openTok("for " + c + "{")
		w.block(s.Body.List)
		w.stmt(s.Post)
		w.closeTok()
	case *ast.RangeStmt:
		w.openTok("range " + w.text(s.X) + " {")
		w.block(s.Body.List)
		w.closeTok()
	case *ast.SelectStmt:
		w.openTok("select {")
		for _, cc := range s.Body.List {
			c := cc.(*ast.CommClause)
			if c.Comm == nil {
				w.openTok("default {")
			} else {
				w.openTok("case " + w.text(c.Comm) + " {")
			}
			w.block(c.Body)
			w.closeTok()
		}
		w.closeTok()
	case *ast.SwitchStmt:
		w.stmt(s.Init)
		t := ""
		if s.Tag != nil {
			t = w.text(s.Tag) + " "
		}
		w.openTok("switch " + t + "{")
		for _, cc := range s.Body.List {
			c := cc.(*ast.CaseClause)
			if c.List == nil {
				w.openTok("default {")
			} else {
				var l []string
				for _, e := range c.List {
					l = append(l, w.text(e))
				}
				w.openTok("case " + strings.Join(l, ", ") + " {")
			}
			w.block(c.Body)
			w.closeTok()
		}
		w.closeTok()
	default:
		cfFail(s, "statement form %T is not handled", s)
	}
}

func cfMentions(s string, keys []string) bool {
	for _, k := range keys {
		if strings.Contains(s, k) {
			return true
		}
	}
	return false
}

// filter keeps the leaf tokens that mention a keyword and the compound statements that contain one
// (or whose header mentions a keyword).
func cfFilter(toks []cfTok, keys []string) []cfTok {
	var rec func(i int) (int, []cfTok, bool) // from an opening token: index after its `}`, kept tokens, anything kept
	rec = func(i int) (int, []cfTok, bool) {
		head := toks[i]
		keep := cfMentions(head.text, keys)
		inner := []cfTok{}
		j := i + 1
		for j < len(toks) && !toks[j].close {
			if toks[j].open {
				nj, sub, k := rec(j)
				if k {
					inner = append(inner, sub...)
					keep = true
				}
				j = nj
				continue
			}
			if cfMentions(toks[j].text, keys) {
				inner = append(inner, toks[j])
				keep = true
			}
			j++
		}
		all := append(append([]cfTok{head}, inner...), cfTok{text: "}", close: true})
		return j + 1, all, keep
	}
	var out []cfTok
	for i := 0; i < len(toks); {
		if toks[i].open {
			ni, sub, k := rec(i)
			if k {
				out = append(out, sub...)
			}
			i = ni
			continue
		}
		if cfMentions(toks[i].text, keys) {
			out = append(out, toks[i])
		}
		i++
	}
	return out
}

// number replaces ‹name› by _k in order of first occurrence.
func cfNumber(toks []cfTok) []string {
	num := map[string]int{}
	out := make([]string, len(toks))
	for i, t := range toks {
		s := t.text
		var b strings.Builder
		for {
			a := strings.Index(s, "‹")
			if a < 0 {
				break
			}
			e := strings.Index(s, "›")
			name := s[a+len("‹") : e]
			if _, ok := num[name]; !ok {
				num[name] = len(num) + 1
			}
			b.WriteString(s[:a])
			fmt.Fprintf(&b, "_%d", num[name])
			s = s[e+len("›"):]
		}
		b.WriteString(s)
		out[i] = b.String()
	}
	return out
}

type cfGen struct {
	b       strings.Builder
	problem string
}

func (g *cfGen) guard(what string, f func()) {
	defer func() {
		if r := recover(); r != nil {
			msg := ""
			switch e := r.(type) {
			case cfErr:
				msg = e.msg
			case mwErr:
				msg = e.msg
			case fatalErr:
				msg = e.msg
			default:
				panic(r)
			}
			if g.problem == "" {
				g.problem = what + ": " + msg
			}
		}
	}()
	f()
}

// fn emits the filtered token list of one function body (params = the parameter lists that declare locals).
func (g *cfGen) fn(name, doc string, keys []string, get func() (body []ast.Stmt, params []*ast.FieldList, outer []ast.Stmt)) {
	var l []string
	g.guard(name, func() {
		body, params, outer := get()
		w := &cfWalker{locals: map[string]bool{}}
		for _, p := range params {
			w.declareFields(p)
		}
		for _, s := range outer { // a closure also sees what its constructor declares
			w.collect(s)
		}
		for _, s := range body {
			w.collect(s)
		}
		w.block(body)
		l = cfNumber(cfFilter(w.out, keys))
	})
	q := make([]string, len(l))
	for i, s := range l {
		q[i] = leanStr(s)
	}
	fmt.Fprintf(&g.b, "/-- %s\n    (kept: tokens mentioning one of %s) -/\ndef %s : List String := [\n  %s]\n\n", doc, strings.Join(keys, " · "), name, strings.Join(q, ",\n  "))
}

func cfDecl(p *pkg, recv, name string) *ast.FuncDecl {
	var d *ast.FuncDecl
	if recv == "" {
		d = p.funcs[name]
	} else if p.methods[recv] != nil {
		d = p.methods[recv][name]
	}
	if d == nil {
		cfFail(nil, "function %s.%s not found in %s", recv, name, shortFile(p.dir))
	}
	return d
}

func cfWhole(p **pkg, recv, name string) func() ([]ast.Stmt, []*ast.FieldList, []ast.Stmt) {
	return func() ([]ast.Stmt, []*ast.FieldList, []ast.Stmt) {
		if *p == nil {
			cfFail(nil, "package not parsed")
		}
		d := cfDecl(*p, recv, name)
		return d.Body.List, []*ast.FieldList{d.Recv, d.Type.Params, d.Type.Results}, nil
	}
}

// cfClosure: the function literal the constructor returns
func cfClosure(p **pkg, name string) func() ([]ast.Stmt, []*ast.FieldList, []ast.Stmt) {
	return func() ([]ast.Stmt, []*ast.FieldList, []ast.Stmt) {
		if *p == nil {
			cfFail(nil, "package not parsed")
		}
		d := cfDecl(*p, "", name)
		fl, pre := mwClosureOf(d)
		return fl.Body.List, []*ast.FieldList{d.Type.Params, fl.Type.Params}, pre
	}
}

// cfClosureM: the function literal a method returns
func cfClosureM(p **pkg, recv, name string) func() ([]ast.Stmt, []*ast.FieldList, []ast.Stmt) {
	return func() ([]ast.Stmt, []*ast.FieldList, []ast.Stmt) {
		if *p == nil {
			cfFail(nil, "package not parsed")
		}
		d := cfDecl(*p, recv, name)
		fl, pre := mwClosureOf(d)
		return fl.Body.List, []*ast.FieldList{d.Recv, d.Type.Params, fl.Type.Params}, pre
	}
}

func genChainFacts(repo string) string {
	g := &cfGen{}
	var router, recovery, timeout, app, routep *pkg
	g.guard("router/route", func() { routep = parseDir(filepath.Join(repo, "router", "route")) })
	g.guard("router", func() { router = parseDir(filepath.Join(repo, "router")) })
	g.guard("middleware/recovery", func() { recovery = parseDir(filepath.Join(repo, "middleware", "recovery")) })
	g.guard("middleware/timeout", func() { timeout = parseDir(filepath.Join(repo, "middleware", "timeout")) })
	g.guard("app", func() { app = parseDir(filepath.Join(repo, "app")) })

	g.fn("ctx_next", "`(*Context).Next` (router/context.go)",
		[]string{".index", ".aborted", ".Err()", ".handlers", "checkCancellation", "return"}, cfWhole(&router, "Context", "Next"))
	g.fn("ctx_abort", "`(*Context).Abort`", []string{".aborted"}, cfWhole(&router, "Context", "Abort"))
	g.fn("ctx_reset_chain", "`(*Context).reset`: the chain state", []string{".index", ".aborted", ".handlers"}, cfWhole(&router, "Context", "reset"))
	g.fn("recovery_handler", "the closure `recovery.New` returns",
		[]string{"recover()", "handlePanic", ".Next()", "defer"}, cfClosure(&recovery, "New"))
	g.fn("recovery_handlePanic", "`recovery.handlePanic`", []string{".Abort()", ".handler", "return"}, cfWhole(&recovery, "", "handlePanic"))
	g.fn("recovery_defaultHandler", "`recovery.defaultHandler`", []string{".JSON(", ".Abort()", "Status"}, cfWhole(&recovery, "", "defaultHandler"))
	g.fn("recovery_captureStack", "`recovery.captureStack`", []string{"debug.Stack()", "< 0", "len(", "return", "= 0"}, cfWhole(&recovery, "", "captureStack"))
	g.fn("recovery_handlePanic_stack", "`recovery.handlePanic`: when the stack is captured", []string{".Abort()", ".logger", ".stackTrace", "captureStack(", ".handler"}, cfWhole(&recovery, "", "handlePanic"))
	for _, o := range []string{"WithoutLogging", "WithLogger", "WithHandler", "WithStackTrace", "WithStackSize", "WithPrettyStack"} {
		g.fn("recovery_opt_"+o, "the option `recovery."+o+"` returns", []string{" = "}, cfClosure(&recovery, o))
	}
	g.fn("timeout_handler", "the closure `timeout.New` returns",
		[]string{"shouldSkip", ".Next()", ":= *", "context.WithTimeout", ".Request =", ".Response", "timeoutWriter", "make(chan", "go {", "defer", "recover()", "close(", "<-", "select", "errors.Is", ".timeout()", ".handler(", ".logger", "panic(", "return"},
		cfClosure(&timeout, "New"))
	for _, m := range []string{"Write", "WriteHeader", "Flush", "timeout", "start", "Header"} {
		g.fn("tw_"+m, "`(*timeoutWriter)."+m+"`",
			[]string{".timedOut", ".started", ".ResponseWriter", ".start()", "Lock()", "return"}, cfWhole(&timeout, "timeoutWriter", m))
	}
	g.fn("app_defaultMiddleware", "`app.applyDefaultMiddleware`", []string{".Use(", "recovery."}, cfWhole(&app, "", "applyDefaultMiddleware"))
	g.fn("app_new_middleware_order", "`app.New`: where the default middleware, the observability recorder and the `WithMiddleware` functions are installed",
		[]string{"applyDefaultMiddleware", ".Use(", "router.New(", "router.MustNew(", "SetObservabilityRecorder"}, cfWhole(&app, "", "New"))

	// composition glue (C02): in which order the handler slices are put together
	comp := []string{"append(", "make(", "copy("}
	g.fn("app_registerRoute", "`(*App).registerRoute`: before, handler, after", comp, cfWhole(&app, "App", "registerRoute"))
	g.fn("app_wrapHandler", "the closure `(*App).wrapHandler` returns", []string{"defer", "›(‹", "return"}, cfClosureM(&app, "App", "wrapHandler"))
	g.fn("app_WithBefore", "the option `app.WithBefore` returns", comp, cfClosure(&app, "WithBefore"))
	g.fn("app_WithAfter", "the option `app.WithAfter` returns", comp, cfClosure(&app, "WithAfter"))
	g.fn("app_RouteOptions", "the option `app.RouteOptions` returns", []string{"range ", "›(‹"}, cfClosure(&app, "RouteOptions"))
	g.fn("app_registerRoute_options", "`(*App).registerRoute`: the options are applied in order to an empty routeConfig", []string{"routeConfig{", "range ", "›(‹"}, cfWhole(&app, "App", "registerRoute"))
	g.fn("app_group_addRoute", "`(*app.Group).addRoute`: group middleware, before, handler, after", comp, cfWhole(&app, "Group", "addRoute"))
	g.fn("app_group_Group", "`(*app.Group).Group`", comp, cfWhole(&app, "Group", "Group"))
	g.fn("app_group_Use", "`(*app.Group).Use`", comp, cfWhole(&app, "Group", "Use"))
	g.fn("app_App_Group", "`(*App).Group`", comp, cfWhole(&app, "App", "Group"))
	g.fn("app_vgroup_addRoute", "`(*app.VersionGroup).addRoute`", comp, cfWhole(&app, "VersionGroup", "addRoute"))
	g.fn("route_RegisterRoute", "`(*route.Route).RegisterRoute`: global middleware, then the route's handlers", append(comp, "GetGlobalMiddleware"), cfWhole(&routep, "Route", "RegisterRoute"))
	g.fn("route_group_addRoute", "`(*route.Group).addRoute`", comp, cfWhole(&routep, "Group", "addRoute"))
	g.fn("route_group_Group", "`(*route.Group).Group`", comp, cfWhole(&routep, "Group", "Group"))
	g.fn("route_group_Use", "`(*route.Group).Use`", comp, cfWhole(&routep, "Group", "Use"))
	g.fn("router_Use", "`(*Router).Use`", comp, cfWhole(&router, "Router", "Use"))
	g.fn("router_Mount", "`(*Router).Mount`: inherited parent middleware, sub-router middleware, extras", append(comp, "InheritMiddleware", "mergeSubrouterRoutes"), cfWhole(&router, "Router", "Mount"))
	g.fn("router_mountRoute", "`(*Router).mountRoute`: mount chain, then the route's handlers", append(comp, "addRouteInternal"), cfWhole(&router, "Router", "mountRoute"))
	g.fn("router_mergeSubrouterRoutes", "`(*Router).mergeSubrouterRoutes`: every route of the sub-router's route log is mounted from the route itself (K02b fix)", []string{".routeLog", "mountRoute(", "Trees", "range "}, cfWhole(&router, "Router", "mergeSubrouterRoutes"))
	g.fn("router_enqueueRoute", "`(*Router).enqueueRoute`: the route is logged whether it is registered at once or deferred", []string{"logRoute(", ".warmedUp", "RegisterRoute()", ".pendingRoutes = append"}, cfWhole(&router, "Router", "enqueueRoute"))
	g.fn("router_logRoute", "`(*Router).logRoute`", []string{".routeLog"}, cfWhole(&router, "Router", "logRoute"))
	g.fn("router_vgroup_Handle", "`(*VersionGroup).Handle`", comp, cfWhole(&router, "VersionGroup", "Handle"))

	var out strings.Builder
	out.WriteString("/- GENERATED by extract/chainfacts.go from router/context.go, middleware/recovery, middleware/timeout, app/app.go of the\n   current working tree — do not edit, not committed. Flat token lists; locals are _1, _2, … in order of first occurrence. -/\nnamespace Rivaas.Gen.ChainFacts\n\n")
	if g.problem == "" {
		out.WriteString("/-- the extractor handled every statement of every function it was asked for -/\ndef problem : Option String := none\n\n")
	} else {
		out.WriteString("/-- the extractor FAILED CLOSED -/\ndef problem : Option String := some " + leanStr(g.problem) + "\n\n")
	}
	out.WriteString(g.b.String())
	out.WriteString("end Rivaas.Gen.ChainFacts\n")
	return out.String()
}
