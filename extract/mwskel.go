package main

// Shared walker of extract/compress.go (C15) and extract/gates.go (C17): the control-flow skeleton of one
// middleware function / closure as a term of Rivaas.Skel.Stmt whose events are `Ev.obsRaw <code>`, the code
// being the index of the call / field assignment in a FIXED vocabulary (descriptor strings, see mwDesc).
// Calls and assignments outside the vocabulary are dropped (listed in the generated file as `others`).
//
//   * descriptor of a call: the selector chain without its root local (`cw.ResponseWriter.WriteHeader` ->
//     ".ResponseWriter.WriteHeader", `c.Response.Header().Set("Vary", …)` -> ".Response.Header.Set(Vary)",
//     `strings.HasPrefix(…)` -> "strings.HasPrefix", `w.Reset(nil)` -> ".Reset(nil)"); the first argument is
//     part of it when it is a literal, nil, or a selector chain. Names of locals never matter.
//   * descriptor of an assignment to a field: "=" + chain (`c.Response = cw` -> "=.Response").
//   * inside a deferred closure every descriptor is prefixed with "defer:"; the defer statement itself is the
//     event "defer" at the place where it is registered.
//   * conditions are abstract atoms (one fresh atom per branch point); calls inside a condition happen before
//     the branch; a loop is one representative iteration or none; `panic(…)` is the event "panic" + return.
//
// Never makes the extractor exit: a statement form it does not know is recorded as a problem, the generated file
// then carries `problem := some "<reason>"` and the Tie theorem `extraction_complete` no longer holds.

import (
	"fmt"
	"go/ast"
	"go/token"
	"sort"
	"strconv"
	"strings"
)

type mwErr struct{ msg string }

type mwScope struct{ body S }

func (s mwScope) lean(ind string) string { return "scope (" + s.body.lean(ind+"  ") + ")" }

type mwWalker struct {
	pkg      *pkg            // for inlining same-package helpers that are not in the vocabulary
	inlining map[string]bool // callees being inlined (recursion guard)
	imports  map[string]bool
	vocab    map[string]int
	atom     *int
	prefix   string
	others   map[string]bool
	loopBody bool // break / continue leave the loop body scope
}

func mwFail(n ast.Node, format string, a ...any) {
	where := ""
	if n != nil && n.Pos().IsValid() {
		p := fset.Position(n.Pos())
		where = fmt.Sprintf("%s:%d: ", shortFile(p.Filename), p.Line)
	}
	panic(mwErr{where + fmt.Sprintf(format, a...)})
}

func mwImports(p *pkg) map[string]bool {
	m := map[string]bool{}
	for _, f := range p.files {
		for _, im := range f.Imports {
			path, _ := strconv.Unquote(im.Path.Value)
			name := path[strings.LastIndex(path, "/")+1:]
			if im.Name != nil {
				name = im.Name.Name
			}
			m[name] = true
		}
	}
	return m
}

// chain: the selector chain of an expression, root local dropped ("" when it is not a chain)
func (w *mwWalker) chain(e ast.Expr) (string, bool) {
	switch v := e.(type) {
	case *ast.Ident:
		if w.imports[v.Name] {
			return v.Name, true
		}
		return "", true
	case *ast.SelectorExpr:
		x, ok := w.chain(v.X)
		if !ok {
			return "", false
		}
		return x + "." + v.Sel.Name, true
	case *ast.CallExpr:
		return w.chain(v.Fun)
	case *ast.TypeAssertExpr:
		return w.chain(v.X)
	case *ast.ParenExpr:
		return w.chain(v.X)
	case *ast.StarExpr:
		return w.chain(v.X)
	case *ast.IndexExpr:
		x, ok := w.chain(v.X)
		return x + "[]", ok
	}
	return "", false
}

func (w *mwWalker) argDesc(e ast.Expr) string {
	switch v := e.(type) {
	case *ast.BasicLit:
		if s, ok := strLit(v); ok {
			return s
		}
		return v.Value
	case *ast.Ident:
		if v.Name == "nil" || v.Name == "true" || v.Name == "false" {
			return v.Name
		}
		return ""
	case *ast.SelectorExpr:
		c, ok := w.chain(v)
		if ok {
			return c
		}
	}
	return ""
}

func (w *mwWalker) callDesc(c *ast.CallExpr) string {
	var d string
	switch f := c.Fun.(type) {
	case *ast.Ident:
		d = f.Name
	default:
		ch, ok := w.chain(c.Fun)
		if !ok {
			return ""
		}
		d = strings.TrimPrefix(ch, "")
	}
	if len(c.Args) > 0 {
		if a := w.argDesc(c.Args[0]); a != "" {
			d += "(" + a + ")"
		}
	}
	return d
}

func (w *mwWalker) event(desc string) S {
	if desc == "" {
		return sSkip{}
	}
	desc = w.prefix + desc
	if code, ok := w.vocab[desc]; ok {
		return sEv{fmt.Sprintf("Ev.obsRaw %d", code)}
	}
	w.others[desc] = true
	return sSkip{}
}

var mwBuiltins = map[string]bool{"len": true, "cap": true, "make": true, "append": true, "max": true, "min": true,
	"string": true, "int": true, "int64": true, "float64": true, "byte": true, "new": true, "delete": true, "copy": true}

// expr: the events of evaluating e, in evaluation order (receiver and arguments before the call itself)
func (w *mwWalker) expr(e ast.Expr) S {
	if e == nil {
		return sSkip{}
	}
	switch v := e.(type) {
	case *ast.CallExpr:
		var parts []S
		if sel, ok := v.Fun.(*ast.SelectorExpr); ok {
			parts = append(parts, w.expr(sel.X))
		} else if _, ok := v.Fun.(*ast.Ident); !ok {
			parts = append(parts, w.expr(v.Fun))
		}
		for _, a := range v.Args {
			parts = append(parts, w.expr(a))
		}
		if id, ok := v.Fun.(*ast.Ident); ok {
			if id.Name == "panic" {
				parts = append(parts, w.event("panic"), sRet{})
				return mkSeq(parts)
			}
			if mwBuiltins[id.Name] {
				return mkSeq(parts)
			}
		}
		if fl, ok := v.Fun.(*ast.FuncLit); ok { // func(){…}() called at once
			parts = append(parts, mwScope{w.block(fl.Body.List)})
			return mkSeq(parts)
		}
		desc := w.callDesc(v)
		if _, known := w.vocab[w.prefix+desc]; !known {
			if body := w.inline(v); body != nil {
				return mkSeq(append(parts, body))
			}
		}
		parts = append(parts, w.event(desc))
		return mkSeq(parts)
	case *ast.FuncLit:
		return sSkip{} // not executed here
	case *ast.BinaryExpr:
		return mkSeq([]S{w.expr(v.X), w.expr(v.Y)})
	case *ast.UnaryExpr:
		return w.expr(v.X)
	case *ast.ParenExpr:
		return w.expr(v.X)
	case *ast.StarExpr:
		return w.expr(v.X)
	case *ast.SelectorExpr:
		return w.expr(v.X)
	case *ast.TypeAssertExpr:
		return w.expr(v.X)
	case *ast.IndexExpr:
		parts := []S{w.expr(v.X), w.expr(v.Index)}
		if ch, ok := w.chain(v.X); ok && strings.HasPrefix(ch, ".") { // a read of a field that is a map / slice
			parts = append(parts, w.event("[]"+ch))
		} else if _, isLocal := v.X.(*ast.Ident); isLocal && ok && ch == "" { // a lookup in a local map / slice (its name does not matter)
			parts = append(parts, w.event("[]"))
		}
		return mkSeq(parts)
	case *ast.SliceExpr:
		return mkSeq([]S{w.expr(v.X), w.expr(v.Low), w.expr(v.High), w.expr(v.Max)})
	case *ast.KeyValueExpr:
		return w.expr(v.Value)
	case *ast.CompositeLit:
		var parts []S
		for _, el := range v.Elts {
			parts = append(parts, w.expr(el))
		}
		return mkSeq(parts)
	case *ast.Ident, *ast.BasicLit, *ast.ArrayType, *ast.MapType, *ast.InterfaceType, *ast.StructType, *ast.FuncType:
		return sSkip{}
	}
	mwFail(e, "unhandled expression form %T (%s)", e, src(e))
	return nil
}

// inline: a call of a helper of the same package that is not itself in the vocabulary — a package-level function
// called by its name, or a method called directly on a local (`cw.helper(…)`) whose name is a method of exactly one type
// of the package — is replaced by the skeleton of its body (a `return` leaves only the helper), so that extracting a
// helper from one of the functions the obligations are about does not change their event traces. nil = not inlined.
func (w *mwWalker) inline(c *ast.CallExpr) S {
	if w.pkg == nil {
		return nil
	}
	var d *ast.FuncDecl
	key := ""
	switch f := c.Fun.(type) {
	case *ast.Ident:
		d, key = w.pkg.funcs[f.Name], f.Name
	case *ast.SelectorExpr:
		if id, ok := f.X.(*ast.Ident); ok && !w.imports[id.Name] {
			n := 0
			for rt, ms := range w.pkg.methods {
				if m := ms[f.Sel.Name]; m != nil {
					d, key = m, rt+"."+f.Sel.Name
					n++
				}
			}
			if n != 1 {
				d = nil
			}
		}
	}
	if d == nil || d.Body == nil || w.inlining[key] || len(w.inlining) >= 4 {
		return nil
	}
	if w.inlining == nil {
		w.inlining = map[string]bool{}
	}
	w.inlining[key] = true
	save := w.loopBody
	w.loopBody = false
	body := w.block(d.Body.List)
	w.loopBody = save
	delete(w.inlining, key)
	return mwScope{body}
}

func (w *mwWalker) newAtom() int {
	*w.atom++
	return *w.atom
}

func (w *mwWalker) block(list []ast.Stmt) S {
	var parts []S
	for _, s := range list {
		parts = append(parts, w.stmt(s))
	}
	return mkSeq(parts)
}

func mwHas(n ast.Node, pred func(ast.Node) bool, stopAt func(ast.Node) bool) bool {
	found := false
	ast.Inspect(n, func(m ast.Node) bool {
		if m == nil || found {
			return false
		}
		if m != n && stopAt != nil && stopAt(m) {
			return false
		}
		if pred(m) {
			found = true
		}
		return !found
	})
	return found
}

func isFuncLit(n ast.Node) bool { _, ok := n.(*ast.FuncLit); return ok }
func isLoopOrFunc(n ast.Node) bool {
	switch n.(type) {
	case *ast.FuncLit, *ast.ForStmt, *ast.RangeStmt, *ast.SwitchStmt, *ast.TypeSwitchStmt, *ast.SelectStmt:
		return true
	}
	return false
}

func (w *mwWalker) loop(body *ast.BlockStmt, n ast.Node) S {
	hasRet := mwHas(body, func(m ast.Node) bool { _, ok := m.(*ast.ReturnStmt); return ok }, isFuncLit)
	hasBrk := mwHas(body, func(m ast.Node) bool { _, ok := m.(*ast.BranchStmt); return ok }, isLoopOrFunc)
	if hasRet && hasBrk {
		mwFail(n, "loop body with both return and break/continue")
	}
	a := w.newAtom()
	if hasBrk {
		save := w.loopBody
		w.loopBody = true
		b := w.block(body.List)
		w.loopBody = save
		return sIte{a, mwScope{b}, sSkip{}}
	}
	save := w.loopBody
	w.loopBody = false
	b := w.block(body.List)
	w.loopBody = save
	return sIte{a, b, sSkip{}}
}

func (w *mwWalker) stmt(s ast.Stmt) S {
	switch v := s.(type) {
	case nil:
		return sSkip{}
	case *ast.ExprStmt:
		return w.expr(v.X)
	case *ast.AssignStmt:
		var parts []S
		for _, r := range v.Rhs {
			parts = append(parts, w.expr(r))
		}
		for _, l := range v.Lhs {
			switch lv := l.(type) {
			case *ast.SelectorExpr:
				if ch, ok := w.chain(lv); ok && strings.HasPrefix(ch, ".") {
					parts = append(parts, w.event("="+ch))
				}
			case *ast.IndexExpr:
				parts = append(parts, w.expr(lv.X), w.expr(lv.Index))
				if ch, ok := w.chain(lv.X); ok && strings.HasPrefix(ch, ".") {
					parts = append(parts, w.event("="+ch+"[]"))
				}
			case *ast.Ident:
			case *ast.StarExpr:
			default:
				mwFail(l, "unhandled assignment target %T", l)
			}
		}
		return mkSeq(parts)
	case *ast.IncDecStmt:
		if ch, ok := w.chain(v.X); ok && strings.HasPrefix(ch, ".") {
			return w.event("=" + ch)
		}
		return sSkip{}
	case *ast.DeclStmt:
		gd, ok := v.Decl.(*ast.GenDecl)
		if !ok {
			mwFail(v, "unhandled declaration")
		}
		var parts []S
		for _, sp := range gd.Specs {
			if vs, ok := sp.(*ast.ValueSpec); ok {
				for _, val := range vs.Values {
					parts = append(parts, w.expr(val))
				}
			}
		}
		return mkSeq(parts)
	case *ast.BlockStmt:
		return w.block(v.List)
	case *ast.IfStmt:
		pre := []S{w.stmt(v.Init), w.expr(v.Cond)}
		a := w.newAtom()
		t := w.block(v.Body.List)
		var e S = sSkip{}
		if v.Else != nil {
			e = w.stmt(v.Else)
		}
		return mkSeq(append(pre, sIte{a, t, e}))
	case *ast.ReturnStmt:
		var parts []S
		for _, r := range v.Results {
			parts = append(parts, w.expr(r))
		}
		return mkSeq(append(parts, sRet{}))
	case *ast.DeferStmt:
		if w.prefix != "" {
			mwFail(v, "defer inside a deferred closure")
		}
		reg := w.event("defer")
		save := w.prefix
		w.prefix = "defer:"
		var body S
		if fl, ok := v.Call.Fun.(*ast.FuncLit); ok {
			body = w.block(fl.Body.List)
		} else {
			body = w.expr(v.Call)
		}
		w.prefix = save
		// the deferred events must be unconditional inside the closure: Skel's `defer` carries single events
		var evs []string
		var flat func(s S, cond bool)
		flat = func(s S, cond bool) {
			switch q := s.(type) {
			case sEv:
				if cond {
					mwFail(v, "a deferred event of the vocabulary is conditional inside the deferred closure")
				}
				evs = append(evs, q.term)
			case sSeq:
				for _, p := range q.parts {
					flat(p, cond)
				}
			case sIte:
				flat(q.t, true)
				flat(q.e, true)
			case mwScope:
				flat(q.body, cond)
			case sRet:
				if !cond {
					mwFail(v, "unconditional return inside a deferred closure")
				}
			}
		}
		flat(body, false)
		parts := []S{reg}
		for i := len(evs) - 1; i >= 0; i-- { // last deferred runs first
			parts = append(parts, sDefer{evs[i]})
		}
		return mkSeq(parts)
	case *ast.ForStmt:
		pre := []S{w.stmt(v.Init), w.expr(v.Cond)}
		return mkSeq(append(pre, w.loop(v.Body, v)))
	case *ast.RangeStmt:
		pre := []S{w.expr(v.X)}
		if ch, ok := w.chain(v.X); ok && strings.HasPrefix(ch, ".") {
			if _, isCall := v.X.(*ast.CallExpr); !isCall {
				pre = append(pre, w.event("range"+ch))
			}
		}
		return mkSeq(append(pre, w.loop(v.Body, v)))
	case *ast.SwitchStmt:
		pre := []S{w.stmt(v.Init), w.expr(v.Tag)}
		return mkSeq(append(pre, w.arms(v.Body.List, v)))
	case *ast.TypeSwitchStmt:
		var pre []S
		pre = append(pre, w.stmt(v.Init))
		switch a := v.Assign.(type) {
		case *ast.AssignStmt:
			pre = append(pre, w.expr(a.Rhs[0]))
		case *ast.ExprStmt:
			pre = append(pre, w.expr(a.X))
		}
		return mkSeq(append(pre, w.arms(v.Body.List, v)))
	case *ast.BranchStmt:
		if (v.Tok == token.BREAK || v.Tok == token.CONTINUE) && v.Label == nil && w.loopBody {
			return sRet{}
		}
		mwFail(v, "unhandled branch statement %s", v.Tok)
	case *ast.EmptyStmt:
		return sSkip{}
	}
	mwFail(s, "unhandled statement form %T", s)
	return nil
}

// arms: the case clauses of a (type) switch as a chain of branches, default last
func (w *mwWalker) arms(list []ast.Stmt, n ast.Node) S {
	var pre []S
	type arm struct{ body S }
	var arms []arm
	var dflt S = sSkip{}
	save := w.loopBody
	w.loopBody = false // a break inside a switch arm is not the loop's
	for _, s := range list {
		cc, ok := s.(*ast.CaseClause)
		if !ok {
			mwFail(s, "unhandled switch clause")
		}
		if mwHas(cc, func(m ast.Node) bool {
			b, ok := m.(*ast.BranchStmt)
			return ok && (b.Tok == token.FALLTHROUGH || b.Tok == token.BREAK)
		}, isLoopOrFunc) {
			mwFail(cc, "fallthrough / break inside a switch arm")
		}
		for _, e := range cc.List {
			if _, isType := e.(*ast.StarExpr); !isType {
				pre = append(pre, w.expr(e))
			}
		}
		b := w.block(cc.Body)
		if cc.List == nil {
			dflt = b
		} else {
			arms = append(arms, arm{b})
		}
	}
	w.loopBody = save
	out := dflt
	atoms := make([]int, len(arms))
	for i := range arms {
		atoms[i] = w.newAtom()
	}
	for i := len(arms) - 1; i >= 0; i-- {
		out = sIte{atoms[i], arms[i].body, out}
	}
	return mkSeq(append(pre, out))
}

// ---------------------------------------------------------------- one generated file

type mwGen struct {
	ns      string
	header  string
	vocab   []string // code = index + 1
	p       map[string]*pkg
	b       strings.Builder
	others  map[string]bool
	problem string
	atom    int
}

func newMwGen(ns, header string, vocab []string) *mwGen {
	return &mwGen{ns: ns, header: header, vocab: vocab, p: map[string]*pkg{}, others: map[string]bool{}}
}

func (g *mwGen) walker(p *pkg) *mwWalker {
	v := map[string]int{}
	for i, s := range g.vocab {
		v[s] = i + 1
	}
	return &mwWalker{pkg: p, imports: mwImports(p), vocab: v, atom: &g.atom, others: g.others}
}

// guard runs f; a problem (mwErr or a fatalErr of the shared finders) is recorded, not fatal
func (g *mwGen) guard(what string, f func()) {
	defer func() {
		if r := recover(); r != nil {
			msg := ""
			switch e := r.(type) {
			case mwErr:
				msg = e.msg
			case fatalErr:
				msg = e.msg
			default: // a bug of this walker must not take the other generated files down either
				msg = fmt.Sprintf("internal error: %v", r)
			}
			if g.problem == "" {
				g.problem = what + ": " + msg
			}
		}
	}()
	f()
}

// closureOf: the function literal that fn returns (the middleware handler), and the statements before it
func mwClosureOf(fn *ast.FuncDecl) (*ast.FuncLit, []ast.Stmt) {
	for i, s := range fn.Body.List {
		if r, ok := s.(*ast.ReturnStmt); ok && len(r.Results) == 1 {
			e := r.Results[0]
			if c, ok := e.(*ast.CallExpr); ok && len(c.Args) == 1 { // http.HandlerFunc(func…)
				e = c.Args[0]
			}
			if fl, ok := e.(*ast.FuncLit); ok {
				return fl, fn.Body.List[:i]
			}
		}
	}
	mwFail(fn, "%s does not return a function literal", fn.Name.Name)
	return nil, nil
}

func (g *mwGen) skel(name, doc string, p *pkg, body []ast.Stmt) {
	var s S = sSkip{}
	g.guard(name, func() { s = mwScope{g.walker(p).block(body)} })
	fmt.Fprintf(&g.b, "/-- %s -/\ndef %s : Stmt :=\n  %s\n\n", doc, name, s.lean("  "))
}

func (g *mwGen) strList(name, doc string, l []string) {
	q := make([]string, len(l))
	for i, s := range l {
		q[i] = leanStr(s)
	}
	fmt.Fprintf(&g.b, "/-- %s -/\ndef %s : List String := [%s]\n\n", doc, name, strings.Join(q, ", "))
}

func (g *mwGen) intList(name, doc string, l []int64) {
	q := make([]string, len(l))
	for i, n := range l {
		if n < 0 {
			q[i] = fmt.Sprintf("(%d)", n)
		} else {
			q[i] = fmt.Sprint(n)
		}
	}
	fmt.Fprintf(&g.b, "/-- %s -/\ndef %s : List Int := [%s]\n\n", doc, name, strings.Join(q, ", "))
}

func (g *mwGen) pairs(name, doc string, l [][2]string) {
	q := make([]string, len(l))
	for i, s := range l {
		q[i] = "(" + leanStr(s[0]) + ", " + leanStr(s[1]) + ")"
	}
	fmt.Fprintf(&g.b, "/-- %s -/\ndef %s : List (String × String) := [%s]\n\n", doc, name, strings.Join(q, ",\n  "))
}

func (g *mwGen) finish() string {
	var out strings.Builder
	fmt.Fprintf(&out, "/- GENERATED by extract/ from %s of the current working tree — do not edit, not committed.\n   Events are `Ev.obsRaw <code>`, code = position in `vocab` (descriptors: extract/mwskel.go). -/\n", g.header)
	out.WriteString("import Rivaas.Tie.Skel\nset_option maxRecDepth 100000\nnamespace " + g.ns + "\nopen Rivaas.Skel Rivaas.Skel.Stmt\n\n")
	if g.problem == "" {
		out.WriteString("/-- the extractor handled every statement of every function it was asked for -/\ndef problem : Option String := none\n\n")
	} else {
		out.WriteString("/-- the extractor FAILED CLOSED -/\ndef problem : Option String := some " + leanStr(g.problem) + "\n\n")
	}
	out.WriteString("/-- event codes -/\ndef vocab : List (Nat × String) := [")
	for i, s := range g.vocab {
		if i > 0 {
			out.WriteString(",")
		}
		fmt.Fprintf(&out, "\n  (%d, %s)", i+1, leanStr(s))
	}
	out.WriteString("]\n\n")
	out.WriteString(g.b.String())
	var oth []string
	for s := range g.others {
		oth = append(oth, s)
	}
	sort.Strings(oth)
	q := make([]string, len(oth))
	for i, s := range oth {
		q[i] = leanStr(s)
	}
	out.WriteString("/-- calls and field assignments outside the vocabulary (dropped from the skeletons) -/\ndef others : List String := [\n  " + strings.Join(q, ",\n  ") + "]\n\nend " + g.ns + "\n")
	return out.String()
}

// ---------------------------------------------------------------- literal finders (syntactic)

// mwFields: the fields of the composite literal a function returns (`return &config{…}`), as source text
func mwFields(fn *ast.FuncDecl) [][2]string {
	var out [][2]string
	ast.Inspect(fn.Body, func(n ast.Node) bool {
		if cl, ok := n.(*ast.CompositeLit); ok && out == nil {
			if id, ok := cl.Type.(*ast.Ident); ok && id.Name == "config" {
				for _, el := range cl.Elts {
					kv, ok := el.(*ast.KeyValueExpr)
					if !ok {
						mwFail(el, "positional field in the config literal")
					}
					out = append(out, [2]string{src(kv.Key), src(kv.Value)})
				}
				return false
			}
		}
		return true
	})
	if out == nil {
		mwFail(fn, "%s: no config literal", fn.Name.Name)
	}
	return out
}

// mwOptionWrites: for every exported With… function of the package that returns a closure over *config: the config
// fields its closure assigns ("field" or "field[]" for a map insert) with the source text of the assigned value
func mwOptionWrites(p *pkg) [][2]string {
	var names []string
	for n := range p.funcs {
		if strings.HasPrefix(n, "With") {
			names = append(names, n)
		}
	}
	sort.Strings(names)
	var out [][2]string
	for _, n := range names {
		fn := p.funcs[n]
		var fl *ast.FuncLit
		for _, s := range fn.Body.List {
			if r, ok := s.(*ast.ReturnStmt); ok && len(r.Results) == 1 {
				fl, _ = r.Results[0].(*ast.FuncLit)
			}
		}
		if fl == nil || len(fl.Type.Params.List) != 1 || len(fl.Type.Params.List[0].Names) != 1 {
			mwFail(fn, "%s does not return a closure over the config", n)
		}
		cfg := fl.Type.Params.List[0].Names[0].Name
		// the option's parameter names are locals: replaced by their position in values and guards
		pos := func(text string) string {
			k := 0
			for _, f := range fn.Type.Params.List {
				for _, id := range f.Names {
					text = mwReplaceIdent(text, id.Name, fmt.Sprintf("$%d", k))
					k++
				}
			}
			return text
		}
		var writes []string
		guarded := ""
		ast.Inspect(fl.Body, func(m ast.Node) bool {
			switch v := m.(type) {
			case *ast.IfStmt:
				if mwHas(v.Body, func(k ast.Node) bool {
					c, ok := k.(*ast.CallExpr)
					if !ok {
						return false
					}
					id, ok := c.Fun.(*ast.Ident)
					return ok && id.Name == "panic"
				}, nil) {
					guarded = " unless " + pos(src(v.Cond)) + " (panic)"
				}
			case *ast.AssignStmt:
				for i, l := range v.Lhs {
					val := ""
					if i < len(v.Rhs) {
						val = pos(src(v.Rhs[i]))
					}
					switch lv := l.(type) {
					case *ast.SelectorExpr:
						if id, ok := lv.X.(*ast.Ident); ok && id.Name == cfg {
							writes = append(writes, lv.Sel.Name+" := "+val)
						}
					case *ast.IndexExpr:
						if sel, ok := lv.X.(*ast.SelectorExpr); ok {
							if id, ok := sel.X.(*ast.Ident); ok && id.Name == cfg {
								writes = append(writes, sel.Sel.Name+"[] := "+val)
							}
						}
					}
				}
			}
			return true
		})
		out = append(out, [2]string{n, strings.Join(writes, "; ") + guarded})
	}
	return out
}

func mwIsIdentByte(c byte) bool {
	return c == '_' || c >= '0' && c <= '9' || c >= 'a' && c <= 'z' || c >= 'A' && c <= 'Z'
}

func mwReplaceIdent(s, name, by string) string {
	var b strings.Builder
	for i := 0; i < len(s); {
		if strings.HasPrefix(s[i:], name) && (i == 0 || !mwIsIdentByte(s[i-1]) && s[i-1] != '.') &&
			(i+len(name) == len(s) || !mwIsIdentByte(s[i+len(name)])) {
			b.WriteString(by)
			i += len(name)
			continue
		}
		b.WriteByte(s[i])
		i++
	}
	return b.String()
}
