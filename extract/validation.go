package main

// Gen/Validation.lean (C05): structural facts of validation/{tags,validate,presence,errors}.go as flat event lists
// (extract/flatfacts.go): the path resolution of partial validation, the leaf loop, the order strategies run in,
// the sort. Tie/C05Validation.lean states what Model/Presence*.lean rely on. Never exits.

import "path/filepath"

func genValidation(repo string) string {
	g := newFlatGen("Rivaas.Gen.Validation", "validation/{tags,validate,presence,errors}.go")
	var v *pkg
	g.guard("validation", func() { v = parseDir(filepath.Join(repo, "validation")) })
	for _, f := range [][2]string{
		{"Validator", "validatePartialLeafsOnly"}, {"Validator", "resolvePath"}, {"Validator", "promotedField"},
		{"Validator", "coversValue"}, {"Validator", "validateAll"}, {"Validator", "determineStrategy"},
		{"Validator", "formatTagErrors"}, {"Validator", "ValidatePartial"}, {"Validator", "validateWithTags"},
		{"Validator", "Validate"}, {"Validator", "validateByStrategy"},
		{"", "getJSONFieldName"}, {"", "buildFieldMap"}, {"", "isPromotedStruct"}, {"", "elementTag"},
		{"Validator", "coerceToValidationErrors"}, {"PresenceMap", "LeafPaths"}, {"", "markPresence"}, {"", "ComputePresence"},
		{"Error", "Sort"}, {"Error", "Add"}, {"Error", "AddError"},
	} {
		name := f[1]
		if f[0] != "" && f[0] != "Validator" {
			name = f[0] + "_" + f[1]
		}
		g.strList(name+"_events", "`"+f[0]+"."+f[1]+"`", g.events(g.fn(v, f[0], f[1])))
	}
	return g.finish()
}
