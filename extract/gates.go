package main

// Gen/Gates.lean (C17): structural facts of the five gates — the skeleton of the handler closure of
// bodylimit.New, basicauth.New, cors.New, methodoverride.New, trailingslash.New / Wrap, of limitedReader.Read and of
// redirect308 / redirect308HTTP / redirectLocation (events: extract/mwskel.go), the defaults of every defaultConfig
// and what every With… option assigns. Tie/C17Gates.lean states what the models (Model/Gates.lean) rely on:
// the check dominates c.Next, a rejection is followed by Abort and return. Never exits (see mwskel.go).

import (
	"go/ast"
	"go/token"
	"path/filepath"
)

var gatesVocab = []string{
	".Next", ".Abort", ".errorHandler", "[].skipPaths", ".Request.Header.Get(Content-Length)", "strconv.ParseInt", "=.Request.Body", // 1-7
	".Request.Header.Get(Authorization)", "strings.HasPrefix", "base64.StdEncoding.DecodeString", "strings.Cut", ".validator", "[].users", // 8-13
	"subtle.ConstantTimeCompare", ".Response.Header.Set(WWW-Authenticate)", ".unauthorizedHandler", "context.WithValue", "=.Request", // 14-18
	".Request.Header.Get(Origin)", ".allowOriginFunc", "slices.Contains(.allowedOrigins)", // 19-21
	".Response.Header.Set(Access-Control-Allow-Origin)", ".Response.Header.Set(Access-Control-Allow-Credentials)", // 22-23
	".Response.Header.Set(Access-Control-Expose-Headers)", ".Response.Header.Set(Access-Control-Allow-Methods)", // 24-25
	".Response.Header.Set(Access-Control-Allow-Headers)", ".Response.Header.Set(Access-Control-Max-Age)", // 26-27
	".Response.WriteHeader(http.StatusNoContent)", "strings.ToUpper", ".Request.Header.Get(.header)", // 28-30
	".Request.URL.Query.Get(.queryParam)", "strings.TrimSpace", "=.Request.Method", "redirect308", // 31-34
	".Response.Header.Set(Location)", ".Response.WriteHeader(http.StatusPermanentRedirect)", "redirectLocation", ".String", // 35-38
	".reader.Read", "fmt.Errorf(%w: %d bytes)", "=.read", "redirect308HTTP", ".ServeHTTP", ".Header.Set(Location)", // 39-44
	".WriteHeader(http.StatusPermanentRedirect)", ".Request.Context.Value", "=.Request.URL.Path", "=.Path", // 45-48
	"[]", // 49: a lookup in a local map / slice (methodoverride's onlyOn and allow maps)
}

func genGates(repo string) string {
	g := newMwGen("Rivaas.Gen.Gates", "middleware/{bodylimit,basicauth,cors,methodoverride,trailingslash}/*.go", gatesVocab)
	for _, name := range []string{"bodylimit", "basicauth", "cors", "methodoverride", "trailingslash"} {
		var p *pkg
		g.guard(name, func() { p = parseDir(filepath.Join(repo, "middleware", name)) })
		if p == nil {
			p = &pkg{funcs: map[string]*ast.FuncDecl{}, methods: map[string]map[string]*ast.FuncDecl{}}
		}
		var closure, prelude []ast.Stmt
		g.guard(name+".New", func() {
			fl, pre := mwClosureOf(p.fn("", "New"))
			closure, prelude = fl.Body.List, pre
		})
		g.skel(name+"_handler", "the closure `"+name+".New` returns", p, closure)
		g.skel(name+"_setup", "`"+name+".New` before it returns the closure", p, prelude)
		var dflt, opts [][2]string
		g.guard(name+".defaultConfig", func() { dflt = mwFields(p.fn("", "defaultConfig")) })
		g.pairs(name+"_defaults", "`"+name+".defaultConfig()`: field, value (source text)", dflt)
		g.guard(name+".options", func() { opts = mwOptionWrites(p) })
		g.pairs(name+"_optionWrites", "every `With…` option of "+name+": what its closure assigns ($i = the option's i-th parameter)", opts)
		switch name {
		case "bodylimit":
			var body []ast.Stmt
			g.guard("limitedReader.Read", func() { body = p.fn("limitedReader", "Read").Body.List })
			g.skel("bodylimit_Read", "`(*limitedReader).Read`", p, body)
		case "trailingslash":
			var wrap []ast.Stmt
			g.guard("trailingslash.Wrap", func() {
				fl, _ := mwClosureOf(p.fn("", "Wrap"))
				wrap = fl.Body.List
			})
			g.skel("trailingslash_wrap", "the handler `trailingslash.Wrap` returns", p, wrap)
			// the Policy constants in declaration order (iota: the position is the value)
			var pol []string
			g.guard("trailingslash.Policy", func() {
				for _, f := range p.files {
					for _, d := range f.Decls {
						gd, ok := d.(*ast.GenDecl)
						if !ok || gd.Tok != token.CONST || len(gd.Specs) == 0 {
							continue
						}
						first, ok := gd.Specs[0].(*ast.ValueSpec)
						if !ok || first.Type == nil || src(first.Type) != "Policy" {
							continue
						}
						if len(first.Values) != 1 || src(first.Values[0]) != "iota" {
							mwFail(first, "the Policy constants are not a plain iota block")
						}
						for _, sp := range gd.Specs {
							vs := sp.(*ast.ValueSpec)
							if len(vs.Names) != 1 || (sp != gd.Specs[0] && (vs.Type != nil || len(vs.Values) != 0)) {
								mwFail(vs, "the Policy constants are not a plain iota block")
							}
							pol = append(pol, vs.Names[0].Name)
						}
					}
				}
				if pol == nil {
					mwFail(nil, "no const block of type Policy")
				}
			})
			g.strList("trailingslash_policies", "the `Policy` constants in declaration order (iota)", pol)
			for _, f := range []string{"redirect308", "redirect308HTTP", "redirectLocation"} {
				var body []ast.Stmt
				g.guard(f, func() { body = p.fn("", f).Body.List })
				g.skel("trailingslash_"+f, "`trailingslash."+f+"`", p, body)
			}
		}
	}
	return g.finish()
}
