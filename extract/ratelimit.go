package main

// Gen/RateLimit.lean (C16) — structural facts of middleware/ratelimit (stores.go, ratelimit.go) that
// Model/RateLimit.lean follows statement by statement:
//   * the statements of InMemoryTokenBucketStore.Allow under the entry lock (refill, cap, lastUpdate, take, reset),
//     of InMemoryStore.IncrAndGetCounts / GetCounts / Incr under the entry lock, of windowEntry.roll, of
//     retryAfterSeconds and scaleDuration — receiver, parameters and locals renamed by position, so a renaming keeps
//     the obligation building;
//   * the decision skeleton of the two middleware closures (WithTokenBucket, WithSlidingWindow): the calls of
//     interest (key function, store calls, Header with its literal name, OnExceeded, WriteErrorResponse, Abort, Next)
//     and the tests around them in source order — which store call is made for which kind of store, that the count is
//     taken before the verdict, that a store error lets the request through, that Retry-After is set before the
//     response is written, callback before enforcement;
//   * the defaults of New and the guards of the options.
// Tie/C16RateLimit.lean states them against the model.
//
// This generator never makes the extractor exit: what it does not recognise is recorded in `extractProblem`.

import (
	"fmt"
	"go/ast"
	"go/token"
	"path/filepath"
	"strings"
)

// rlLocked returns the statements after the `defer X.mu.Unlock()` of a method (the part under the entry lock).
func rlLocked(d *ast.FuncDecl) []ast.Stmt {
	for i, s := range d.Body.List {
		if df, ok := s.(*ast.DeferStmt); ok {
			if nm, _ := pxCallName(df.Call); nm == "Unlock" {
				return d.Body.List[i+1:]
			}
		}
	}
	pxFail(d, "%s: no `defer <entry>.mu.Unlock()`", d.Name.Name)
	return nil
}

func rlRenamed(lines []string, names map[string]string) []string {
	out := make([]string, len(lines))
	for i, l := range lines {
		out[i] = pxRename(l, names)
	}
	return out
}

// rlSkeleton walks a closure body and keeps the calls of interest and the tests around them.
func rlSkeleton(body []ast.Stmt, interest map[string]bool) []string {
	var out []string
	mentions := func(n ast.Node) bool {
		found := false
		ast.Inspect(n, func(m ast.Node) bool {
			if c, ok := m.(*ast.CallExpr); ok {
				if nm, _ := pxCallName(c); interest[nm] {
					found = true
				}
			}
			if _, ok := m.(*ast.ReturnStmt); ok {
				found = true
			}
			return !found
		})
		return found
	}
	callTok := func(c *ast.CallExpr) string {
		nm, _ := pxCallName(c)
		if nm == "Header" && len(c.Args) == 2 {
			if k, ok := strLit(c.Args[0]); ok {
				arg := ""
				if in := pxFindCall(c.Args[1], "retryAfterSeconds"); in != nil {
					arg = " = retryAfterSeconds"
				} else if id := pxFindCall(c.Args[1], "Itoa"); id != nil && len(id.Args) == 1 {
					arg = " = " + src(id.Args[0])
				}
				return "Header " + k + arg
			}
		}
		return nm
	}
	var walk func(list []ast.Stmt, ind string)
	walk = func(list []ast.Stmt, ind string) {
		for _, s := range list {
			switch v := s.(type) {
			case *ast.IfStmt:
				if !mentions(v) {
					continue
				}
				pre := ""
				if v.Init != nil {
					for _, c := range callsIn(v.Init) {
						if nm, _ := pxCallName(c); interest[nm] {
							pre += callTok(c) + "; "
						}
					}
				}
				out = append(out, ind+"if "+pre+src(v.Cond))
				walk(v.Body.List, ind+"  ")
				switch e := v.Else.(type) {
				case *ast.BlockStmt:
					out = append(out, ind+"else")
					walk(e.List, ind+"  ")
				case *ast.IfStmt:
					out = append(out, ind+"else")
					walk([]ast.Stmt{e}, ind+"  ")
				}
			case *ast.ReturnStmt:
				out = append(out, ind+"return")
			case *ast.BlockStmt:
				walk(v.List, ind)
			default:
				for _, c := range callsIn(s) {
					if nm, _ := pxCallName(c); interest[nm] {
						out = append(out, ind+callTok(c))
					}
				}
			}
		}
	}
	walk(body, "")
	return out
}

// rlClosure returns the body of the function literal a constructor returns.
func rlClosure(d *ast.FuncDecl) *ast.FuncLit {
	for _, s := range d.Body.List {
		if r, ok := s.(*ast.ReturnStmt); ok && len(r.Results) == 1 {
			if fl, ok := r.Results[0].(*ast.FuncLit); ok {
				return fl
			}
		}
	}
	pxFail(d, "%s does not return a function literal", d.Name.Name)
	return nil
}

func genRateLimit(repo string) string {
	g := &pxGen{}
	var p *pkg
	g.guard("parse", "", func() string { p = parseDir(filepath.Join(repo, "middleware", "ratelimit")); return "" })
	if p == nil {
		p = &pkg{funcs: map[string]*ast.FuncDecl{}, methods: map[string]map[string]*ast.FuncDecl{}}
	}
	get := func(recv, name string) *ast.FuncDecl {
		var d *ast.FuncDecl
		if recv == "" {
			d = p.funcs[name]
		} else if p.methods[recv] != nil {
			d = p.methods[recv][name]
		}
		if d == nil {
			pxFail(nil, "%s not found in middleware/ratelimit", name)
		}
		return d
	}
	type shapeT struct {
		recv, name, def, doc string
		locked            bool
	}
	for _, h := range []shapeT{
		{"InMemoryTokenBucketStore", "Allow", "allowLocked", "InMemoryTokenBucketStore.Allow under the entry lock", true},
		{"InMemoryStore", "IncrAndGetCounts", "incrAndGetCountsLocked", "InMemoryStore.IncrAndGetCounts under the entry lock", true},
		{"InMemoryStore", "GetCounts", "getCountsLocked", "InMemoryStore.GetCounts under the entry lock", true},
		{"InMemoryStore", "Incr", "incrLocked", "InMemoryStore.Incr under the entry lock", true},
		{"windowEntry", "roll", "rollShape", "windowEntry.roll", false},
		{"", "retryAfterSeconds", "retryAfterShape", "retryAfterSeconds", false},
		{"", "scaleDuration", "scaleDurationShape", "scaleDuration", false},
	} {
		h := h
		g.guard(h.name, "\ndef "+h.def+" : List String := [\"EXTRACT-PROBLEM\"]\n", func() string {
			d := get(h.recv, h.name)
			names := pxPositional(d, "recv")
			list := d.Body.List
			if h.locked {
				list = rlLocked(d)
			}
			return fmt.Sprintf("\n/-- statements of %s (receiver, parameters, locals renamed by position) -/\ndef %s : List String := %s\n",
				h.doc, h.def, pxStrs(rlRenamed(pxShape(list), names)))
		})
	}
	// the sweep of the two cleanup loops: the select case that deletes entries
	for _, h := range []struct{ recv, def string }{{"InMemoryTokenBucketStore", "bucketSweep"}, {"InMemoryStore", "windowSweep"}} {
		h := h
		g.guard(h.recv+".cleanupLoop", "\ndef "+h.def+" : List String := [\"EXTRACT-PROBLEM\"]\n", func() string {
			d := get(h.recv, "cleanupLoop")
			var body []ast.Stmt
			ast.Inspect(d.Body, func(n ast.Node) bool {
				cc, ok := n.(*ast.CommClause)
				if !ok {
					return true
				}
				for _, st := range cc.Body {
					if pxFindCall(st, "delete") != nil {
						body = cc.Body
					}
				}
				return true
			})
			if body == nil {
				pxFail(d, "cleanupLoop: no select case that deletes entries")
			}
			return fmt.Sprintf("\n/-- the sweep of %s.cleanupLoop (receiver and locals renamed by position) -/\ndef %s : List String := %s\n",
				h.recv, h.def, pxStrs(rlRenamed(pxShape(body), pxPositional(d, "recv"))))
		})
	}
	interest := map[string]bool{"Key": true, "Now": true, "Allow": true, "GetCounts": true, "IncrAndGetCounts": true, "Incr": true, "Header": true,
		"OnExceeded": true, "WriteErrorResponse": true, "Abort": true, "Next": true, "IsAborted": true, "retryAfterSeconds": true}
	for _, h := range []struct{ name, def string }{{"WithTokenBucket", "tokenBucketSkeleton"}, {"WithSlidingWindow", "slidingWindowSkeleton"}} {
		h := h
		g.guard(h.name, "\ndef "+h.def+" : List String := [\"EXTRACT-PROBLEM\"]\n", func() string {
			d := get("", h.name)
			fl := rlClosure(d)
			names := pxPositional(d, "recv")
			// locals of the closure, in order of definition
			tmp := &ast.FuncDecl{Name: d.Name, Type: fl.Type, Body: fl.Body}
			for k, v := range pxPositional(tmp, "recv") {
				if _, dup := names[k]; !dup {
					if strings.HasPrefix(v, "arg") {
						v = "ctx"
					}
					names[k] = v
				}
			}
			return fmt.Sprintf("\n/-- decision skeleton of the middleware %s returns (arg0 = limiter, arg1 = options, ctx = the request context) -/\ndef %s : List String := %s\n",
				h.name, h.def, pxStrs(rlRenamed(rlSkeleton(fl.Body.List, interest), names)))
		})
	}
	// which store the sliding window uses: the type assertion to the one-call interface
	g.guard("atomic preference", "\ndef atomicAssertion : String := \"EXTRACT-PROBLEM\"\n", func() string {
		d := get("", "WithSlidingWindow")
		found := ""
		ast.Inspect(d.Body, func(n ast.Node) bool {
			if ta, ok := n.(*ast.TypeAssertExpr); ok && ta.Type != nil {
				found = src(ta.X) + ".(" + src(ta.Type) + ")"
			}
			return true
		})
		if found == "" {
			pxFail(d, "WithSlidingWindow: no type assertion on the store")
		}
		return "\n/-- how WithSlidingWindow finds out whether the store has the one-call interface -/\ndef atomicAssertion : String := " + leanStr(pxRename(found, pxPositional(d, "recv"))) + "\n"
	})
	// defaults of New
	g.guard("New", "\ndef newDefaults : List (String × String) := [(\"EXTRACT-PROBLEM\", \"\")]\ndef optionGuards : List (String × String) := [(\"EXTRACT-PROBLEM\", \"\")]\n", func() string {
		d := get("", "New")
		var defs []string
		ast.Inspect(d.Body, func(n ast.Node) bool {
			cl, ok := n.(*ast.CompositeLit)
			if !ok || src(cl.Type) != "config" {
				return true
			}
			for _, e := range cl.Elts {
				if kv, ok := e.(*ast.KeyValueExpr); ok {
					defs = append(defs, fmt.Sprintf("(%s, %s)", leanStr(src(kv.Key)), leanStr(src(kv.Value))))
				}
			}
			return false
		})
		if defs == nil {
			pxFail(d, "New: no config literal")
		}
		var guards []string
		for _, on := range []string{"WithRequestsPerSecond", "WithBurst", "WithCleanupInterval", "WithLimiterTTL"} {
			od := get("", on)
			names := pxPositional(od, "recv")
			cond := "(unconditional)"
			ast.Inspect(od.Body, func(n ast.Node) bool {
				if is, ok := n.(*ast.IfStmt); ok {
					cond = pxRename(src(is.Cond), names)
				}
				return true
			})
			guards = append(guards, fmt.Sprintf("(%s, %s)", leanStr(on), leanStr(cond)))
		}
		return fmt.Sprintf("\n/-- the configuration New starts from -/\ndef newDefaults : List (String × String) := [%s]\n/-- an option only takes effect when its guard holds -/\ndef optionGuards : List (String × String) := [%s]\n",
			strings.Join(defs, ", "), strings.Join(guards, ", "))
	})

	var out strings.Builder
	out.WriteString("/- GENERATED by extract/ratelimit.go from middleware/ratelimit/*.go of the current working tree — do not edit, not committed. -/\nnamespace Rivaas.Gen.RateLimit\n")
	if len(g.errs) > 0 {
		out.WriteString("\n/-- the extractor failed closed on part of the source -/\ndef extractProblem : String := " + leanStr(strings.Join(g.errs, "; ")) + "\n")
	} else {
		out.WriteString("\ndef extractProblem : String := \"\"\n")
	}
	out.WriteString(g.b.String())
	out.WriteString("\nend Rivaas.Gen.RateLimit\n")
	_ = token.NoPos
	return out.String()
}
