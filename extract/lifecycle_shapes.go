package main

// Second half of Gen/Lifecycle.lean (owner: C09): the *shapes* the lifecycle model takes from the source besides the
// call order — which channel each arm of the event loop waits on and where `goto` goes, the loop shape of each hook
// executor (direction, return inside the loop, goroutine per hook, recover per hook, iterating over a copy taken
// under the lock), `Reload` under `reloadMu`, the start/stop pairing of the observability components, and which
// context each step of the shutdown sequence receives. Located by structure (callee names, field names, statement
// forms), never by the names of locals. Anything not recognised panics with lcErr and ends up in `extractError`.

import (
	"fmt"
	"go/ast"
	"go/token"
	"sort"
	"strings"
)

func lcStrList(xs []string) string {
	q := make([]string, len(xs))
	for i, s := range xs {
		q[i] = leanStr(s)
	}
	return "[" + strings.Join(q, ", ") + "]"
}

func lcDedup(xs []string) []string {
	var out []string
	for i, s := range xs {
		if i == 0 || s != xs[i-1] {
			out = append(out, s)
		}
	}
	return out
}

func lcBool(b bool) string {
	if b {
		return "true"
	}
	return "false"
}

// calls in n (function literals included or not)
func lcCalls(n ast.Node, enterLits bool, f func(*ast.CallExpr)) {
	ast.Inspect(n, func(m ast.Node) bool {
		if _, ok := m.(*ast.FuncLit); ok && !enterLits {
			return false
		}
		if c, ok := m.(*ast.CallExpr); ok {
			f(c)
		}
		return true
	})
}

func lcHasRecoverDefer(body *ast.BlockStmt) bool {
	found := false
	for _, s := range body.List {
		d, ok := s.(*ast.DeferStmt)
		if !ok {
			continue
		}
		fl, ok := d.Call.Fun.(*ast.FuncLit)
		if !ok {
			continue
		}
		lcCalls(fl.Body, false, func(c *ast.CallExpr) {
			if id, ok := c.Fun.(*ast.Ident); ok && id.Name == "recover" {
				found = true
			}
		})
	}
	return found
}

func lcHasReturn(n ast.Node) bool {
	found := false
	ast.Inspect(n, func(m ast.Node) bool {
		if _, ok := m.(*ast.FuncLit); ok {
			return false
		}
		if _, ok := m.(*ast.ReturnStmt); ok {
			found = true
		}
		return !found
	})
	return found
}

// selector path a.b.c as "a.b.c" ("" when it is not a pure selector chain)
func lcSelPath(e ast.Expr) string {
	switch v := e.(type) {
	case *ast.Ident:
		return v.Name
	case *ast.SelectorExpr:
		p := lcSelPath(v.X)
		if p == "" {
			return ""
		}
		return p + "." + v.Sel.Name
	}
	return ""
}

// is e the expression context.WithTimeout(context.WithoutCancel(…), …) (the first result of it)?
func lcIsDetachedTimeout(e ast.Expr) bool {
	c, ok := e.(*ast.CallExpr)
	if !ok {
		return false
	}
	if n, _ := lcCalleeOf(c); n != "WithTimeout" || len(c.Args) < 1 {
		return false
	}
	in, ok := c.Args[0].(*ast.CallExpr)
	if !ok {
		return false
	}
	n, _ := lcCalleeOf(in)
	return n == "WithoutCancel"
}

type lcHookLoop struct {
	fn                                                           string
	reverse, returnsInLoop, goPerHook, perHookRecover, localCopy bool
	unlockedBeforeLoop                                           bool
}

func (x *lcX) hookLoop(name, field string) lcHookLoop {
	d := x.funcs["App."+name]
	if d == nil {
		x.fail(nil, "%s not found", name)
	}
	out := lcHookLoop{fn: name}
	var loop ast.Stmt
	var loopBody *ast.BlockStmt
	locked, unlocked, deferredUnlock := false, false, false
	for _, s := range d.Body.List {
		switch v := s.(type) {
		case *ast.RangeStmt:
			if loop != nil {
				x.fail(v, "%s: more than one loop", name)
			}
			loop, loopBody = v, v.Body
			// iterating over a local copy, not over the registered list itself
			if id, ok := v.X.(*ast.Ident); ok && id.Name != "" {
				out.localCopy = true
			}
			out.unlockedBeforeLoop = locked && unlocked && !deferredUnlock
		case *ast.ForStmt:
			if loop != nil {
				x.fail(v, "%s: more than one loop", name)
			}
			loop, loopBody = v, v.Body
			// for i := len(xs) - 1; i >= 0; i--
			init, ok1 := v.Init.(*ast.AssignStmt)
			cond, ok2 := v.Cond.(*ast.BinaryExpr)
			post, ok3 := v.Post.(*ast.IncDecStmt)
			if !ok1 || !ok2 || !ok3 || len(init.Rhs) != 1 {
				x.fail(v, "%s: for loop of an unknown shape", name)
			}
			sub, isSub := init.Rhs[0].(*ast.BinaryExpr)
			down := isSub && sub.Op == token.SUB && strings.HasPrefix(x.text(sub.X), "len(") && x.text(sub.Y) == "1" &&
				cond.Op == token.GEQ && x.text(cond.Y) == "0" && post.Tok == token.DEC
			up := x.text(init.Rhs[0]) == "0" && cond.Op == token.LSS && strings.HasPrefix(x.text(cond.Y), "len(") && post.Tok == token.INC
			if !down && !up {
				x.fail(v, "%s: for loop of an unknown shape", name)
			}
			out.reverse = down
			if isSub {
				if c, ok := sub.X.(*ast.CallExpr); ok && len(c.Args) == 1 {
					if _, ok := c.Args[0].(*ast.Ident); ok {
						out.localCopy = true
					}
				}
			} else if c, ok := cond.Y.(*ast.CallExpr); ok && len(c.Args) == 1 {
				if _, ok := c.Args[0].(*ast.Ident); ok {
					out.localCopy = true
				}
			}
			out.unlockedBeforeLoop = locked && unlocked && !deferredUnlock
		case *ast.DeferStmt:
			if n, _ := lcCalleeOf(v.Call); n == "Unlock" {
				deferredUnlock = true
			}
		default:
			lcCalls(s, false, func(c *ast.CallExpr) {
				n, recv := lcCalleeOf(c)
				if recv != nil && strings.HasSuffix(lcSelPath(recv), "hooks.mu") {
					if n == "Lock" {
						locked = true
					}
					if n == "Unlock" {
						unlocked = true
					}
				}
			})
		}
	}
	if loop == nil {
		x.fail(d, "%s: no loop over the hooks", name)
	}
	// the copy is taken from the registered list of this kind
	if !strings.Contains(x.text(d.Body), "hooks."+field) {
		x.fail(d, "%s does not read hooks.%s", name, field)
	}
	out.returnsInLoop = lcHasReturn(loopBody)
	ast.Inspect(loopBody, func(m ast.Node) bool {
		if _, ok := m.(*ast.GoStmt); ok {
			out.goPerHook = true
		}
		return true
	})
	// recover per hook: a function literal in the loop body with a recovering defer, or a same-package callee with one
	ast.Inspect(loopBody, func(m ast.Node) bool {
		if fl, ok := m.(*ast.FuncLit); ok && lcHasRecoverDefer(fl.Body) {
			out.perHookRecover = true
		}
		if c, ok := m.(*ast.CallExpr); ok {
			if _, dd := x.local(c); dd != nil && dd.Body != nil && lcHasRecoverDefer(dd.Body) {
				out.perHookRecover = true
			}
		}
		return true
	})
	return out
}

func (h lcHookLoop) lean() string {
	return fmt.Sprintf("{ fn := %s, reverse := %s, returnsInLoop := %s, goPerHook := %s, perHookRecover := %s, localCopy := %s, unlockedBeforeLoop := %s }",
		leanStr(h.fn), lcBool(h.reverse), lcBool(h.returnsInLoop), lcBool(h.goPerHook), lcBool(h.perHookRecover), lcBool(h.localCopy), lcBool(h.unlockedBeforeLoop))
}

// lcShapes renders the shape definitions (Lean text). armNames = the channel expression of each arm, in order.
func (x *lcX) shapes(armNames []string, label string) string {
	var b strings.Builder
	rs := x.funcs["App.runServer"]
	// --- event loop
	var gotos []string
	ast.Inspect(rs.Body, func(m ast.Node) bool {
		if br, ok := m.(*ast.BranchStmt); ok && br.Label != nil {
			switch {
			case br.Tok == token.GOTO:
				gotos = append(gotos, br.Label.Name)
			case br.Tok == token.BREAK && x.loopLabel != "" && br.Label.Name == x.loopLabel:
				gotos = append(gotos, "after "+x.loopLabel) // same control flow as goto <label after the loop>
			}
		}
		return true
	})
	sort.Strings(gotos)
	gotos = lcDedup(gotos)
	// what each arm waits for, by structure: the channel the serving goroutine sends its error to, Done() of a context,
	// any other channel (which of them reloads is the business of the arm *roles*, read off the arm bodies)
	sendTo := map[string]bool{}
	ast.Inspect(rs.Body, func(m ast.Node) bool {
		if v, ok := m.(*ast.SendStmt); ok {
			if id, ok := v.Chan.(*ast.Ident); ok {
				sendTo[id.Name] = true
			}
		}
		return true
	})
	for i, n := range armNames {
		switch {
		case sendTo[n]:
			armNames[i] = "serveError"
		case strings.HasSuffix(n, ".Done()"):
			armNames[i] = "ctxDone"
		case n != "default" && n != "?":
			armNames[i] = "chan"
		}
	}
	fmt.Fprintf(&b, "def loopShape : LoopShape :=\n  { armChans := %s, label := %s, gotoTargets := %s }\n\n", lcStrList(armNames), leanStr(label), lcStrList(gotos))

	// --- hook executors
	kinds := [][2]string{{"executeStartHooks", "onStart"}, {"executeReadyHooks", "onReady"}, {"executeReloadHooks", "onReload"},
		{"executeShutdownHooks", "onShutdown"}, {"executeStopHooks", "onStop"}}
	var hl []string
	for _, k := range kinds {
		hl = append(hl, x.hookLoop(k[0], k[1]).lean())
	}
	fmt.Fprintf(&b, "def hookLoops : List HookLoop :=\n  [%s]\n\n", strings.Join(hl, ",\n   "))

	// --- Reload under reloadMu
	rl := x.funcs["App.Reload"]
	if rl == nil {
		x.fail(nil, "Reload not found")
	}
	lockFirst, deferNext, hooksAfter, otherUnlock := false, false, false, false
	if len(rl.Body.List) >= 2 {
		if es, ok := rl.Body.List[0].(*ast.ExprStmt); ok {
			if c, ok := es.X.(*ast.CallExpr); ok {
				n, recv := lcCalleeOf(c)
				lockFirst = n == "Lock" && recv != nil && strings.HasSuffix(lcSelPath(recv), "reloadMu")
			}
		}
		if ds, ok := rl.Body.List[1].(*ast.DeferStmt); ok {
			n, recv := lcCalleeOf(ds.Call)
			deferNext = n == "Unlock" && recv != nil && strings.HasSuffix(lcSelPath(recv), "reloadMu")
		}
		for _, s := range rl.Body.List[2:] {
			lcCalls(s, true, func(c *ast.CallExpr) {
				n, recv := lcCalleeOf(c)
				if n == "executeReloadHooks" {
					hooksAfter = true
				}
				if n == "Unlock" && recv != nil && strings.HasSuffix(lcSelPath(recv), "reloadMu") {
					otherUnlock = true
				}
			})
		}
	}
	fmt.Fprintf(&b, "def reloadShape : ReloadShape :=\n  { lockFirst := %s, deferUnlockNext := %s, hooksAfter := %s, noOtherUnlock := %s }\n\n",
		lcBool(lockFirst), lcBool(deferNext), lcBool(hooksAfter), lcBool(!otherUnlock))

	// --- observability start / stop pairing
	comps := func(fn, method string) (names []string, d *ast.FuncDecl) {
		d = x.funcs["App."+fn]
		if d == nil {
			x.fail(nil, "%s not found", fn)
		}
		lcCalls(d.Body, false, func(c *ast.CallExpr) {
			n, recv := lcCalleeOf(c)
			if n == method && recv != nil {
				p := lcSelPath(recv)
				if i := strings.LastIndex(p, "."); i >= 0 {
					names = append(names, p[i+1:])
				}
			}
		})
		return
	}
	started, sd := comps("startObservability", "Start")
	stopped, hd := comps("shutdownObservability", "Shutdown")
	// every start is inside `if err := …Start(ctx); err != nil { return … }`
	startReturns := true
	nIfRet := 0
	ast.Inspect(sd.Body, func(m ast.Node) bool {
		if is, ok := m.(*ast.IfStmt); ok && is.Init != nil && strings.Contains(x.text(is.Init), ".Start(") {
			if lcHasReturn(is.Body) {
				nIfRet++
			}
		}
		return true
	})
	if nIfRet != len(started) {
		startReturns = false
	}
	// abortStartup: order of the calls that matter, and the context shutdownObservability gets
	ab := x.funcs["App.abortStartup"]
	if ab == nil {
		x.fail(nil, "abortStartup not found")
	}
	var abOrder []string
	detached := map[string]bool{}
	abDetached := false
	for _, s := range ab.Body.List {
		if as, ok := s.(*ast.AssignStmt); ok && len(as.Rhs) == 1 && lcIsDetachedTimeout(as.Rhs[0]) {
			if id, ok := as.Lhs[0].(*ast.Ident); ok {
				detached[id.Name] = true
			}
		}
		lcCalls(s, false, func(c *ast.CallExpr) {
			n, _ := lcCalleeOf(c)
			switch n {
			case "flushStartupLogs", "shutdownObservability", "executeStopHooks", "executeShutdownHooks":
				abOrder = append(abOrder, n)
			}
			if n == "shutdownObservability" && len(c.Args) == 1 {
				if id, ok := c.Args[0].(*ast.Ident); ok && detached[id.Name] {
					abDetached = true
				}
			}
		})
	}
	// runServer after the label: which context each step gets
	det := map[string]bool{}     // variables assigned from WithTimeout(WithoutCancel(…))
	alias := map[string]string{} // finalCtx := shutdownCtx
	fresh := map[string]bool{}   // variables re-assigned from WithTimeout(WithoutCancel(…)) inside `if <v>.Err() != nil`
	argOf := map[string]string{}
	seenLabel := false
	for _, s := range rs.Body.List {
		if ls, ok := s.(*ast.LabeledStmt); ok {
			if isFor(ls.Stmt) {
				seenLabel = true // the labelled event loop itself: what follows is the shutdown sequence
				continue
			}
			seenLabel = true
			s = ls.Stmt
		}
		if !seenLabel {
			continue
		}
		switch v := s.(type) {
		case *ast.AssignStmt:
			if len(v.Rhs) == 1 && len(v.Lhs) >= 1 {
				if id, ok := v.Lhs[0].(*ast.Ident); ok {
					if lcIsDetachedTimeout(v.Rhs[0]) {
						det[id.Name] = true
					} else if r, ok := v.Rhs[0].(*ast.Ident); ok {
						alias[id.Name] = r.Name
					}
				}
			}
		case *ast.IfStmt:
			if strings.Contains(x.text(v.Cond), ".Err() != nil") {
				for _, t := range v.Body.List {
					if as, ok := t.(*ast.AssignStmt); ok && len(as.Rhs) == 1 && lcIsDetachedTimeout(as.Rhs[0]) {
						if id, ok := as.Lhs[0].(*ast.Ident); ok {
							if c, ok := v.Cond.(*ast.BinaryExpr); ok && strings.HasPrefix(x.text(c.X), alias[id.Name]+".") {
								fresh[id.Name] = true
							}
						}
					}
				}
			}
		}
		lcCalls(s, false, func(c *ast.CallExpr) {
			n, recv := lcCalleeOf(c)
			switch n {
			case "executeShutdownHooks", "shutdownObservability", "executeStopHooks":
				if len(c.Args) == 1 {
					argOf[n] = x.text(c.Args[0])
				}
			case "Shutdown":
				if recv != nil && len(c.Args) == 1 && !strings.Contains(lcSelPath(recv), "metrics") && !strings.Contains(lcSelPath(recv), "tracing") {
					argOf[n] = x.text(c.Args[0])
				}
			}
		})
	}
	hooksCtx, drainCtx, flushCtx, stopCtx := argOf["executeShutdownHooks"], argOf["Shutdown"], argOf["shutdownObservability"], argOf["executeStopHooks"]
	fmt.Fprintf(&b, "def obsShape : ObsShape :=\n  { started := %s, startReturnsOnError := %s,\n    shutDown := %s, shutdownHasNoReturn := %s,\n    abortOrder := %s, abortCtxDetached := %s,\n    shutdownCtxDetached := %s, hooksAndDrainShareCtx := %s,\n    finalCtxFreshWhenExpired := %s, flushAndStopShareFinalCtx := %s }\n",
		lcStrList(started), lcBool(startReturns), lcStrList(stopped), lcBool(!lcHasReturn(hd.Body)),
		lcStrList(abOrder), lcBool(abDetached),
		lcBool(hooksCtx != "" && det[hooksCtx]), lcBool(hooksCtx != "" && hooksCtx == drainCtx),
		lcBool(flushCtx != "" && alias[flushCtx] == hooksCtx && fresh[flushCtx]), lcBool(flushCtx != "" && flushCtx == stopCtx))
	return b.String()
}
