package main

// Gen/Guards.lean (C12): for every exported method of Router, VersionRouter, VersionGroup, route.Route and
// route.Group that (transitively) writes state of its receiver: does a frozen/serving check — or a call to a
// function that performs one first — come before the first state write? Syntactic, conservative:
//   * a check is an `if` whose condition calls .frozen.Load(), .serving.Load(), .IsFrozen() or .Frozen() and whose
//     body ends in panic(...) or return;
//   * a state write is an assignment / ++ / -- whose target is rooted at the receiver, a call of Store/Add/Swap/
//     CompareAndSwap (atomics) on or with something rooted at the receiver, or a call of a function that writes;
//   * calls are resolved by name over the two packages (all candidates must check for the call to count as a check,
//     one writing candidate makes it a write).

import (
	"fmt"
	"go/ast"
	"go/token"
	"sort"
	"strings"
)

type gfunc struct {
	recv, name string
	d          *ast.FuncDecl
	guardState int // 0 unknown, 1 in progress, 2 guarded, 3 not guarded
	writeState int // 0 unknown, 1 in progress, 2 writes, 3 does not
}

type guardWorld struct {
	byName map[string][]*gfunc
	all    []*gfunc
}

var guardTypes = map[string]bool{"Router": true, "VersionRouter": true, "VersionGroup": true, "Route": true, "Group": true}

func newGuardWorld(ps ...*pkg) *guardWorld {
	w := &guardWorld{byName: map[string][]*gfunc{}}
	for _, p := range ps {
		for name, d := range p.funcs {
			w.add(&gfunc{"", name, d, 0, 0})
		}
		for rt, ms := range p.methods {
			for name, d := range ms {
				w.add(&gfunc{rt, name, d, 0, 0})
			}
		}
	}
	sort.Slice(w.all, func(i, j int) bool {
		if w.all[i].recv != w.all[j].recv {
			return w.all[i].recv < w.all[j].recv
		}
		return w.all[i].name < w.all[j].name
	})
	return w
}

func (w *guardWorld) add(f *gfunc) {
	w.byName[f.name] = append(w.byName[f.name], f)
	w.all = append(w.all, f)
}

var stateCalls = map[string]bool{"Store": true, "Add": true, "Swap": true, "CompareAndSwap": true,
	"StorePointer": true, "CompareAndSwapPointer": true, "AddUint64": true}

// arityOK: the call can be a call of d as far as the number of arguments tells.
func arityOK(c *ast.CallExpr, d *ast.FuncDecl) bool {
	n := d.Type.Params.NumFields()
	variadic := false
	if l := d.Type.Params.List; len(l) > 0 {
		_, variadic = l[len(l)-1].Type.(*ast.Ellipsis)
	}
	if variadic {
		return len(c.Args) >= n-1
	}
	return len(c.Args) == n
}

func rootIdent(e ast.Expr) string {
	for {
		switch v := e.(type) {
		case *ast.Ident:
			return v.Name
		case *ast.SelectorExpr:
			e = v.X
		case *ast.IndexExpr:
			e = v.X
		case *ast.StarExpr:
			e = v.X
		case *ast.ParenExpr:
			e = v.X
		case *ast.UnaryExpr:
			e = v.X
		case *ast.CallExpr:
			e = v.Fun
		default:
			return ""
		}
	}
}

func isCheckCall(c *ast.CallExpr) bool {
	sel, ok := c.Fun.(*ast.SelectorExpr)
	if !ok {
		return false
	}
	switch sel.Sel.Name {
	case "IsFrozen", "Frozen":
		return true
	case "Load":
		if in, ok := sel.X.(*ast.SelectorExpr); ok && (in.Sel.Name == "frozen" || in.Sel.Name == "serving") {
			return true
		}
	}
	return false
}

func isGuardIf(s ast.Stmt) bool {
	is, ok := s.(*ast.IfStmt)
	if !ok || len(is.Body.List) == 0 {
		return false
	}
	check := false
	ast.Inspect(is.Cond, func(n ast.Node) bool {
		if c, ok := n.(*ast.CallExpr); ok && isCheckCall(c) {
			check = true
		}
		return true
	})
	if !check {
		return false
	}
	// a negated test (`if !r.frozen.Load() { return err }`) is a check too: what matters is that the method tests the flag and leaves
	switch last := is.Body.List[len(is.Body.List)-1].(type) {
	case *ast.ReturnStmt:
		return true
	case *ast.ExprStmt:
		if c, ok := last.X.(*ast.CallExpr); ok && isIdent(c.Fun, "panic") {
			return true
		}
	}
	return false
}

// callsIn lists the calls of a statement outside function literals, in source order.
func callsIn(n ast.Node) []*ast.CallExpr {
	var out []*ast.CallExpr
	ast.Inspect(n, func(m ast.Node) bool {
		switch v := m.(type) {
		case *ast.FuncLit:
			return false
		case *ast.CallExpr:
			out = append(out, v)
		}
		return true
	})
	return out
}

// candidates: every function a call may refer to (by name; over-approximation, used for "writes").
func (w *guardWorld) candidates(c *ast.CallExpr) []*gfunc {
	name, recv := calleeName(c)
	if name == "" {
		return nil
	}
	var out []*gfunc
	for _, f := range w.byName[name] {
		if (recv == nil) == (f.recv == "") && arityOK(c, f.d) {
			out = append(out, f)
		}
	}
	return out
}

// targets: the functions a call made inside `in` refers to, as far as syntax tells: a call on the receiver itself is a
// method of the same type; a call on anything else (a field, an interface such as route.Registrar) may be any method of
// that name on one of the types of interest.
func (w *guardWorld) targets(c *ast.CallExpr, in *gfunc) []*gfunc {
	name, recv := calleeName(c)
	if name == "" {
		return nil
	}
	var same, typed, free []*gfunc
	for _, f := range w.byName[name] {
		if !arityOK(c, f.d) {
			continue
		}
		switch {
		case f.recv == "":
			free = append(free, f)
		case f.recv == in.recv:
			same = append(same, f)
		}
		if guardTypes[f.recv] {
			typed = append(typed, f)
		}
	}
	if recv == nil {
		return free
	}
	if isIdent(recv, recvName(in.d)) && len(same) > 0 {
		return same
	}
	return typed
}

func (w *guardWorld) directWrite(n ast.Node, recv string) bool {
	found := false
	ast.Inspect(n, func(m ast.Node) bool {
		switch v := m.(type) {
		case *ast.FuncLit:
			return false
		case *ast.AssignStmt:
			if v.Tok != token.DEFINE {
				for _, l := range v.Lhs {
					if _, plain := l.(*ast.Ident); !plain && rootIdent(l) == recv {
						found = true
					}
				}
			}
		case *ast.IncDecStmt:
			if _, plain := v.X.(*ast.Ident); !plain && rootIdent(v.X) == recv {
				found = true
			}
		case *ast.CallExpr:
			if sel, ok := v.Fun.(*ast.SelectorExpr); ok && stateCalls[sel.Sel.Name] {
				if rootIdent(sel.X) == recv {
					found = true
				}
				for _, a := range v.Args { // atomic.StorePointer(&r.x, …)
					if rootIdent(a) == recv {
						found = true
					}
				}
			}
		}
		return !found
	})
	return found
}

func (w *guardWorld) writes(f *gfunc) bool {
	switch f.writeState {
	case 1, 3:
		return false
	case 2:
		return true
	}
	f.writeState = 1
	recv := recvName(f.d)
	res := recv != "" && w.directWrite(f.d.Body, recv)
	if !res {
		for _, c := range callsIn(f.d.Body) {
			for _, g := range w.candidates(c) {
				if g != f && w.writes(g) {
					res = true
				}
			}
		}
	}
	if res {
		f.writeState = 2
	} else {
		f.writeState = 3
	}
	return res
}

// guarded: a check comes before the first state write in the top-level statement sequence.
func (w *guardWorld) guarded(f *gfunc) bool {
	switch f.guardState {
	case 1, 3:
		return false
	case 2:
		return true
	}
	f.guardState = 1
	recv := recvName(f.d)
	res := false
scan:
	for _, st := range f.d.Body.List {
		if isGuardIf(st) {
			res = true
			break
		}
		if _, isDefer := st.(*ast.DeferStmt); isDefer {
			continue
		}
		for _, c := range callsIn(st) {
			tg := w.targets(c, f)
			allGuard := len(tg) > 0
			for _, g := range tg {
				if g == f || !w.guarded(g) {
					allGuard = false
				}
			}
			if allGuard {
				res = true
				break scan
			}
			// a call on the receiver or on something reached through it may write through any method of that name;
			// a call on a local (strings.Builder, a freshly built value) only through the resolved targets
			wr := tg
			if _, r := calleeName(c); r != nil && rootIdent(r) == recv && recv != "" {
				wr = w.candidates(c)
			}
			for _, g := range wr {
				if g != f && w.writes(g) {
					break scan
				}
			}
		}
		if recv != "" && w.directWrite(st, recv) {
			break
		}
	}
	if res {
		f.guardState = 2
	} else {
		f.guardState = 3
	}
	return res
}

func genGuards(router, route *pkg) string {
	w := newGuardWorld(router, route)
	var rows []string
	n := 0
	for _, f := range w.all {
		if !guardTypes[f.recv] || !ast.IsExported(f.name) || !w.writes(f) {
			continue
		}
		rows = append(rows, fmt.Sprintf("  (%s, %s, %v)", leanStr(f.recv), leanStr(f.name), w.guarded(f)))
		n++
	}
	if n < 20 {
		fatalf(token.NoPos, "guards: only %d exported mutators found (Router/VersionRouter/Route/Group moved?)", n)
	}
	for _, must := range [][2]string{{"Router", "GET"}, {"Route", "WhereInt"}, {"Route", "SetName"}, {"VersionRouter", "GET"}, {"Group", "GET"}} {
		ok := false
		for _, f := range w.byName[must[1]] {
			if f.recv == must[0] && w.writes(f) {
				ok = true
			}
		}
		if !ok {
			fatalf(token.NoPos, "guards: (%s).%s is not recognised as a mutator any more", must[0], must[1])
		}
	}
	var b strings.Builder
	b.WriteString("/- GENERATED by extract/ from router/*.go and router/route/*.go of the current working tree — do not edit, not committed.\n")
	b.WriteString("   Exported methods that (transitively) write state of their receiver, and whether a frozen/serving check (or a call\n   to a function that performs one first) comes before the first state write. -/\n")
	b.WriteString("namespace Rivaas.Gen.Guards\n\n/-- (receiver type, method, guarded) -/\ndef mutators : List (String × String × Bool) := [\n")
	b.WriteString(strings.Join(rows, ",\n"))
	b.WriteString("]\n\nend Rivaas.Gen.Guards\n")
	return b.String()
}
