package main

// Gen/OpenAPIRanges.lean (owner: C07) — every `range` statement on the generation path of the openapi module
// (openapi/generate.go, openapi/internal/build, openapi/internal/schema, openapi/internal/export), with what it
// ranges over and — when that is a map — the shape of the loop. Tie/C07Ranges.lean proves that no map is ever
// iterated in an order-sensitive way: the determinism theorems of C07 (`deterministic`, `deterministic_path_order`,
// `deterministic_status_order`) model `Build` as sorting the keys of `byPath` and of `doc.ResponseTypes`; here
// the source is checked to do so, and every other map loop is checked to be a key-wise copy.
//
// go/parser only, no go/types: the type of the ranged expression is resolved syntactically from parameter,
// receiver, local and struct-field declarations of the five packages (named types, pointers, selectors, index
// expressions, make/new/composite literals, results of functions and methods declared in these packages).
// What cannot be resolved is reported as `unknown` and rejected by the Tie theorem (fails closed).
//
// Loop shapes for a map:
//   sortedKeys  — the body is exactly `ks = append(ks, k)` (k the key variable) and the statement that follows the
//                 loop sorts ks (sort.Strings / sort.Ints / slices.Sort);
//   keyedCopy   — every effect of the body on anything declared outside it is an assignment `dst[k] = …` (or
//                 `dst[k].f = …`) indexed by the loop's own key variable — distinct keys, so the iterations
//                 commute —; the functions it calls are listed (`mapLoopCallees`) and checked against an allowlist;
//                 `hasReturn`: the body may leave the function (only with an error: which of several errors is
//                 reported may then depend on the order, the document does not);
//   unordered   — anything else (an append to an outer slice, a write to an outer variable, a break, …).
// Like the C09/C14 generators this one never makes the extractor exit: a problem becomes `extractError`.

import (
	"fmt"
	"go/ast"
	"go/token"
	"path/filepath"
	"sort"
	"strings"
)

type orPkg struct {
	name  string
	p     *pkg
	types map[string]ast.Expr // type name -> declared type expression
	vars  map[string]ast.Expr // package-level variable -> type expression (declared, or of its composite literal)
}

type orWorld struct {
	pkgs map[string]*orPkg // by package name as used in selectors
}

// a resolved type: expression + the package whose scope its bare identifiers belong to
type orT struct {
	e   ast.Expr
	pkg string
}

func (w *orWorld) load(name, dir string) {
	p := parseDir(dir)
	op := &orPkg{name: name, p: p, types: map[string]ast.Expr{}, vars: map[string]ast.Expr{}}
	for _, f := range p.files {
		for _, d := range f.Decls {
			if g, ok := d.(*ast.GenDecl); ok && g.Tok == token.VAR {
				for _, s := range g.Specs {
					vs := s.(*ast.ValueSpec)
					for i, n := range vs.Names {
						if vs.Type != nil {
							op.vars[n.Name] = vs.Type
						} else if i < len(vs.Values) {
							if cl, ok := vs.Values[i].(*ast.CompositeLit); ok && cl.Type != nil {
								op.vars[n.Name] = cl.Type
							}
						}
					}
				}
			}
			if g, ok := d.(*ast.GenDecl); ok && g.Tok == token.TYPE {
				for _, s := range g.Specs {
					ts := s.(*ast.TypeSpec)
					op.types[ts.Name.Name] = ts.Type
				}
			}
		}
	}
	w.pkgs[name] = op
}

// under resolves named types to their declaration (one step at a time, bounded).
func (w *orWorld) under(t orT) orT {
	for i := 0; i < 8 && t.e != nil; i++ {
		switch v := t.e.(type) {
		case *ast.ParenExpr:
			t = orT{v.X, t.pkg}
		case *ast.Ident:
			if p := w.pkgs[t.pkg]; p != nil {
				if d, ok := p.types[v.Name]; ok {
					t = orT{d, t.pkg}
					continue
				}
			}
			return t
		case *ast.SelectorExpr:
			if id, ok := v.X.(*ast.Ident); ok {
				if p := w.pkgs[id.Name]; p != nil {
					if d, ok := p.types[v.Sel.Name]; ok {
						t = orT{d, id.Name}
						continue
					}
				}
			}
			return t
		case *ast.IndexExpr: // generic instantiation
			t = orT{v.X, t.pkg}
		default:
			return t
		}
	}
	return t
}

func (w *orWorld) kind(t orT) string {
	if t.e == nil {
		return "unknown"
	}
	u := w.under(t)
	switch v := u.e.(type) {
	case *ast.MapType:
		return "map"
	case *ast.ArrayType, *ast.Ellipsis:
		return "slice"
	case *ast.ChanType:
		return "chan"
	case *ast.FuncType:
		return "iter"
	case *ast.Ident:
		switch v.Name {
		case "string":
			return "string"
		case "int", "int64", "int32", "uint", "uint64", "uint32":
			return "int"
		}
	case *ast.SelectorExpr:
		s := src(v)
		if s == "iter.Seq" || s == "iter.Seq2" {
			return "iter"
		}
		if s == "diag.Warnings" {
			return "slice"
		}
	}
	return "unknown"
}

func (w *orWorld) deref(t orT) orT {
	u := w.under(t)
	if s, ok := u.e.(*ast.StarExpr); ok {
		return orT{s.X, u.pkg}
	}
	return t
}

func (w *orWorld) field(t orT, name string) orT {
	u := w.under(w.deref(t))
	st, ok := u.e.(*ast.StructType)
	if !ok {
		return orT{}
	}
	for _, f := range st.Fields.List {
		for _, n := range f.Names {
			if n.Name == name {
				return orT{f.Type, u.pkg}
			}
		}
		if len(f.Names) == 0 { // embedded
			if r := w.field(orT{f.Type, u.pkg}, name); r.e != nil {
				return r
			}
		}
	}
	return orT{}
}

func (w *orWorld) elem(t orT) (key, val orT) {
	u := w.under(t)
	switch v := u.e.(type) {
	case *ast.MapType:
		return orT{v.Key, u.pkg}, orT{v.Value, u.pkg}
	case *ast.ArrayType:
		return orT{ast.NewIdent("int"), u.pkg}, orT{v.Elt, u.pkg}
	case *ast.Ellipsis:
		return orT{ast.NewIdent("int"), u.pkg}, orT{v.Elt, u.pkg}
	}
	if src(u.e) == "diag.Warnings" {
		return orT{ast.NewIdent("int"), u.pkg}, orT{}
	}
	return orT{}, orT{}
}

// named type of a receiver / value for method lookup
func (w *orWorld) typeName(t orT) (pkgName, name string) {
	e := t.e
	for {
		switch v := e.(type) {
		case *ast.StarExpr:
			e = v.X
			continue
		case *ast.ParenExpr:
			e = v.X
			continue
		case *ast.Ident:
			return t.pkg, v.Name
		case *ast.SelectorExpr:
			if id, ok := v.X.(*ast.Ident); ok {
				return id.Name, v.Sel.Name
			}
		}
		return "", ""
	}
}

type orEnv struct {
	w    *orWorld
	pkg  string
	vars map[string]orT
}

func (x *orEnv) results(ft *ast.FuncType, pkgName string) []orT {
	var out []orT
	if ft.Results == nil {
		return nil
	}
	for _, f := range ft.Results.List {
		n := len(f.Names)
		if n == 0 {
			n = 1
		}
		for i := 0; i < n; i++ {
			out = append(out, orT{f.Type, pkgName})
		}
	}
	return out
}

// callResults: the result types of a call, nil when unknown.
func (x *orEnv) callResults(c *ast.CallExpr) []orT {
	switch f := c.Fun.(type) {
	case *ast.ArrayType, *ast.MapType:
		return []orT{{f, x.pkg}}
	case *ast.Ident:
		switch f.Name {
		case "make", "new":
			if len(c.Args) > 0 {
				if f.Name == "new" {
					return []orT{{&ast.StarExpr{X: c.Args[0]}, x.pkg}}
				}
				return []orT{{c.Args[0], x.pkg}}
			}
		case "append":
			if len(c.Args) > 0 {
				return []orT{x.typeOf(c.Args[0])}
			}
		case "len", "cap":
			return []orT{{ast.NewIdent("int"), x.pkg}}
		}
		if p := x.w.pkgs[x.pkg]; p != nil {
			if d := p.p.funcs[f.Name]; d != nil {
				return x.results(d.Type, x.pkg)
			}
			if _, ok := p.types[f.Name]; ok && len(c.Args) == 1 { // conversion
				return []orT{{f, x.pkg}}
			}
		}
		if v, ok := x.vars[f.Name]; ok { // a function-typed variable
			if ft, ok := x.w.under(v).e.(*ast.FuncType); ok {
				return x.results(ft, v.pkg)
			}
		}
	case *ast.SelectorExpr:
		if id, ok := f.X.(*ast.Ident); ok {
			if _, isVar := x.vars[id.Name]; !isVar {
				if p := x.w.pkgs[id.Name]; p != nil { // pkg.Func
					if d := p.p.funcs[f.Sel.Name]; d != nil {
						return x.results(d.Type, id.Name)
					}
				}
				switch src(f) {
				case "strings.SplitSeq", "strings.FieldsSeq", "maps.Keys", "maps.Values", "slices.Values":
					return []orT{{&ast.FuncType{}, x.pkg}}
				case "strings.Split", "strings.Fields", "strings.SplitN":
					return []orT{{&ast.ArrayType{Elt: ast.NewIdent("string")}, x.pkg}}
				case "slices.Sorted", "slices.Collect":
					return []orT{{&ast.ArrayType{Elt: ast.NewIdent("string")}, x.pkg}}
				}
				return nil
			}
		}
		rt := x.typeOf(f.X)
		if rt.e == nil {
			return nil
		}
		if f.Sel.Name == "NumField" || f.Sel.Name == "Len" || f.Sel.Name == "NumMethod" {
			return []orT{{ast.NewIdent("int"), x.pkg}}
		}
		pn, tn := x.w.typeName(rt)
		if p := x.w.pkgs[pn]; p != nil {
			if d := p.p.methods[tn][f.Sel.Name]; d != nil {
				return x.results(d.Type, pn)
			}
		}
		// a function-typed field
		if ft := x.w.field(rt, f.Sel.Name); ft.e != nil {
			if fn, ok := x.w.under(ft).e.(*ast.FuncType); ok {
				return x.results(fn, ft.pkg)
			}
		}
	}
	return nil
}

func (x *orEnv) typeOf(e ast.Expr) orT {
	switch v := e.(type) {
	case *ast.ParenExpr:
		return x.typeOf(v.X)
	case *ast.Ident:
		if t, ok := x.vars[v.Name]; ok {
			return t
		}
		if p := x.w.pkgs[x.pkg]; p != nil {
			if t, ok := p.vars[v.Name]; ok {
				return orT{t, x.pkg}
			}
		}
		return orT{}
	case *ast.SelectorExpr:
		if id, ok := v.X.(*ast.Ident); ok {
			if _, isVar := x.vars[id.Name]; !isVar && x.w.pkgs[id.Name] != nil {
				return orT{} // pkg.Var: not needed
			}
		}
		t := x.typeOf(v.X)
		if t.e == nil {
			return orT{}
		}
		return x.w.field(t, v.Sel.Name)
	case *ast.StarExpr:
		return x.w.deref(x.typeOf(v.X))
	case *ast.UnaryExpr:
		if v.Op == token.AND {
			t := x.typeOf(v.X)
			if t.e == nil {
				return orT{}
			}
			return orT{&ast.StarExpr{X: t.e}, t.pkg}
		}
	case *ast.IndexExpr:
		_, val := x.w.elem(x.typeOf(v.X))
		return val
	case *ast.SliceExpr:
		return x.typeOf(v.X)
	case *ast.CompositeLit:
		if v.Type != nil {
			return orT{v.Type, x.pkg}
		}
	case *ast.CallExpr:
		if r := x.callResults(v); len(r) > 0 {
			return r[0]
		}
	case *ast.BasicLit:
		if v.Kind == token.STRING {
			return orT{ast.NewIdent("string"), x.pkg}
		}
		if v.Kind == token.INT {
			return orT{ast.NewIdent("int"), x.pkg}
		}
	case *ast.TypeAssertExpr:
		if v.Type != nil {
			return orT{v.Type, x.pkg}
		}
	}
	return orT{}
}

type orFact struct {
	file, fn, expr, kind, shape string
	line                        int
}

type orOut struct {
	facts   []orFact
	callees map[string]bool
}

func (x *orEnv) bindFields(fl *ast.FieldList) {
	if fl == nil {
		return
	}
	for _, f := range fl.List {
		for _, n := range f.Names {
			x.vars[n.Name] = orT{f.Type, x.pkg}
		}
	}
}

func (x *orEnv) define(lhs []ast.Expr, rhs []ast.Expr) {
	if len(lhs) == len(rhs) {
		for i, l := range lhs {
			if id, ok := l.(*ast.Ident); ok && id.Name != "_" {
				if t := x.typeOf(rhs[i]); t.e != nil {
					x.vars[id.Name] = t
				} else {
					delete(x.vars, id.Name)
				}
			}
		}
		return
	}
	if len(rhs) == 1 {
		var rs []orT
		switch r := rhs[0].(type) {
		case *ast.CallExpr:
			rs = x.callResults(r)
		case *ast.IndexExpr: // v, ok := m[k]
			rs = []orT{x.typeOf(r), {ast.NewIdent("bool"), x.pkg}}
		case *ast.TypeAssertExpr:
			rs = []orT{x.typeOf(r), {ast.NewIdent("bool"), x.pkg}}
		}
		for i, l := range lhs {
			if id, ok := l.(*ast.Ident); ok && id.Name != "_" {
				if i < len(rs) && rs[i].e != nil {
					x.vars[id.Name] = rs[i]
				} else {
					delete(x.vars, id.Name)
				}
			}
		}
	}
}

// declaredIn collects the identifiers a statement list declares (:=, var, range variables), at any depth.
func declaredIn(n ast.Node, into map[string]bool) {
	ast.Inspect(n, func(m ast.Node) bool {
		switch v := m.(type) {
		case *ast.AssignStmt:
			if v.Tok == token.DEFINE {
				for _, l := range v.Lhs {
					if id, ok := l.(*ast.Ident); ok {
						into[id.Name] = true
					}
				}
			}
		case *ast.RangeStmt:
			if v.Tok == token.DEFINE {
				for _, e := range []ast.Expr{v.Key, v.Value} {
					if id, ok := e.(*ast.Ident); ok {
						into[id.Name] = true
					}
				}
			}
		case *ast.ValueSpec:
			for _, n := range v.Names {
				into[n.Name] = true
			}
		}
		return true
	})
}

func orRootIdent(e ast.Expr) *ast.Ident {
	for {
		switch v := e.(type) {
		case *ast.Ident:
			return v
		case *ast.SelectorExpr:
			e = v.X
		case *ast.IndexExpr:
			e = v.X
		case *ast.StarExpr:
			e = v.X
		case *ast.ParenExpr:
			e = v.X
		default:
			return nil
		}
	}
}

// indexedByKey: e is dst[k]… with k the loop key (possibly followed by selectors).
func indexedByKey(e ast.Expr, key string) bool {
	for {
		switch v := e.(type) {
		case *ast.IndexExpr:
			if id, ok := v.Index.(*ast.Ident); ok && id.Name == key {
				return true
			}
			e = v.X
		case *ast.SelectorExpr:
			e = v.X
		case *ast.StarExpr:
			e = v.X
		case *ast.ParenExpr:
			e = v.X
		default:
			return false
		}
	}
}

// mapLoopShape classifies the body of a range over a map.
func (o *orOut) mapLoopShape(r *ast.RangeStmt, following ast.Stmt) string {
	key := ""
	if id, ok := r.Key.(*ast.Ident); ok {
		key = id.Name
	}
	// sortedKeys
	if len(r.Body.List) == 1 && key != "" && r.Value == nil {
		if as, ok := r.Body.List[0].(*ast.AssignStmt); ok && len(as.Lhs) == 1 && len(as.Rhs) == 1 {
			if c, ok := as.Rhs[0].(*ast.CallExpr); ok && src(c.Fun) == "append" && len(c.Args) == 2 &&
				src(c.Args[0]) == src(as.Lhs[0]) && src(c.Args[1]) == key {
				if es, ok := following.(*ast.ExprStmt); ok {
					if sc, ok := es.X.(*ast.CallExpr); ok && len(sc.Args) == 1 && src(sc.Args[0]) == src(as.Lhs[0]) {
						switch src(sc.Fun) {
						case "sort.Strings", "sort.Ints", "slices.Sort":
							return "sortedKeys"
						}
					}
				}
				return "unordered: keys collected but the next statement does not sort them"
			}
		}
	}
	local := map[string]bool{}
	declaredIn(r.Body, local)
	if key != "" {
		local[key] = true
	}
	if id, ok := r.Value.(*ast.Ident); ok {
		local[id.Name] = true
	}
	bad := ""
	hasReturn := false
	ast.Inspect(r.Body, func(m ast.Node) bool {
		if bad != "" {
			return false
		}
		switch v := m.(type) {
		case *ast.FuncLit:
			bad = "function literal"
		case *ast.AssignStmt:
			if v.Tok == token.DEFINE {
				return true
			}
			for _, l := range v.Lhs {
				id := orRootIdent(l)
				if id == nil {
					bad = "assignment to " + src(l)
					return false
				}
				if local[id.Name] && !isPointerish(l) {
					continue
				}
				if key != "" && indexedByKey(l, key) {
					continue
				}
				if local[id.Name] { // a field of a value declared inside the body (exV31.Extensions = …)
					continue
				}
				bad = "write to " + src(l)
				return false
			}
		case *ast.IncDecStmt:
			if id := orRootIdent(v.X); id == nil || !local[id.Name] {
				bad = "write to " + src(v.X)
			}
		case *ast.ReturnStmt:
			hasReturn = true
		case *ast.BranchStmt:
			if v.Tok != token.CONTINUE {
				bad = v.Tok.String()
			}
		case *ast.GoStmt, *ast.DeferStmt, *ast.SendStmt:
			bad = "go/defer/send"
		case *ast.CallExpr:
			name := src(v.Fun)
			switch name {
			case "append", "len", "make", "new", "string", "delete":
				if name == "delete" {
					bad = "delete"
				}
			default:
				o.callees[name] = true
			}
		}
		return true
	})
	if bad != "" {
		return "unordered: " + bad
	}
	if hasReturn {
		return "keyedCopyMayReturn"
	}
	return "keyedCopy"
}

func isPointerish(ast.Expr) bool { return false }

func (o *orOut) walkFunc(w *orWorld, pkgName, file, fname string, recv *ast.FieldList, ft *ast.FuncType, body *ast.BlockStmt) {
	x := &orEnv{w: w, pkg: pkgName, vars: map[string]orT{}}
	x.bindFields(recv)
	x.bindFields(ft.Params)
	x.bindFields(ft.Results)
	o.walkBlock(x, file, fname, body.List)
}

func (o *orOut) walkBlock(x *orEnv, file, fname string, list []ast.Stmt) {
	for i, st := range list {
		var following ast.Stmt
		if i+1 < len(list) {
			following = list[i+1]
		}
		o.walkStmt(x, file, fname, st, following)
	}
}

func (o *orOut) walkStmt(x *orEnv, file, fname string, st ast.Stmt, following ast.Stmt) {
	switch v := st.(type) {
	case *ast.AssignStmt:
		if v.Tok == token.DEFINE || v.Tok == token.ASSIGN {
			if v.Tok == token.DEFINE {
				x.define(v.Lhs, v.Rhs)
			}
		}
		o.walkExprs(x, file, fname, v.Rhs)
	case *ast.DeclStmt:
		if g, ok := v.Decl.(*ast.GenDecl); ok {
			for _, s := range g.Specs {
				if vs, ok := s.(*ast.ValueSpec); ok {
					for i, n := range vs.Names {
						if vs.Type != nil {
							x.vars[n.Name] = orT{vs.Type, x.pkg}
						} else if i < len(vs.Values) {
							x.vars[n.Name] = x.typeOf(vs.Values[i])
						}
					}
				}
			}
		}
	case *ast.BlockStmt:
		o.walkBlock(x, file, fname, v.List)
	case *ast.IfStmt:
		if v.Init != nil {
			o.walkStmt(x, file, fname, v.Init, nil)
		}
		o.walkBlock(x, file, fname, v.Body.List)
		if v.Else != nil {
			o.walkStmt(x, file, fname, v.Else, nil)
		}
	case *ast.ForStmt:
		if v.Init != nil {
			o.walkStmt(x, file, fname, v.Init, nil)
		}
		o.walkBlock(x, file, fname, v.Body.List)
	case *ast.SwitchStmt:
		if v.Init != nil {
			o.walkStmt(x, file, fname, v.Init, nil)
		}
		for _, c := range v.Body.List {
			o.walkBlock(x, file, fname, c.(*ast.CaseClause).Body)
		}
	case *ast.TypeSwitchStmt:
		for _, c := range v.Body.List {
			o.walkBlock(x, file, fname, c.(*ast.CaseClause).Body)
		}
	case *ast.ExprStmt:
		o.walkExprs(x, file, fname, []ast.Expr{v.X})
	case *ast.ReturnStmt:
		o.walkExprs(x, file, fname, v.Results)
	case *ast.DeferStmt:
		o.walkExprs(x, file, fname, []ast.Expr{v.Call})
	case *ast.RangeStmt:
		t := x.typeOf(v.X)
		kind := x.w.kind(t)
		if kind == "unknown" {
			if _, ok := v.X.(*ast.BasicLit); ok {
				kind = "int"
			}
			if cl, ok := v.X.(*ast.CompositeLit); ok {
				if _, ok := cl.Type.(*ast.ArrayType); ok {
					kind = "slice"
				}
			}
		}
		shape := "-"
		if kind == "map" {
			shape = o.mapLoopShape(v, following)
		}
		o.facts = append(o.facts, orFact{file: file, fn: fname, expr: src(v.X), kind: kind, shape: shape, line: fset.Position(v.Pos()).Line})
		if v.Tok == token.DEFINE {
			k, val := x.w.elem(t)
			if kind == "string" || kind == "int" {
				k = orT{ast.NewIdent("int"), x.pkg}
			}
			if kind == "iter" {
				k = orT{ast.NewIdent("string"), x.pkg} // strings.SplitSeq and friends
			}
			if id, ok := v.Key.(*ast.Ident); ok && id.Name != "_" {
				if k.e != nil {
					x.vars[id.Name] = k
				} else {
					delete(x.vars, id.Name)
				}
			}
			if id, ok := v.Value.(*ast.Ident); ok && id.Name != "_" {
				if val.e != nil {
					x.vars[id.Name] = val
				} else {
					delete(x.vars, id.Name)
				}
			}
		}
		o.walkBlock(x, file, fname, v.Body.List)
	}
}

// function literals inside expressions are walked with the enclosing environment
func (o *orOut) walkExprs(x *orEnv, file, fname string, es []ast.Expr) {
	for _, e := range es {
		ast.Inspect(e, func(m ast.Node) bool {
			if fl, ok := m.(*ast.FuncLit); ok {
				saved := map[string]orT{}
				for k, v := range x.vars {
					saved[k] = v
				}
				x.bindFields(fl.Type.Params)
				o.walkBlock(x, file, fname+".func", fl.Body.List)
				x.vars = saved
				return false
			}
			return true
		})
	}
}

func genOpenAPIRanges(repo string) (out string) {
	const head = "/- GENERATED by extract/oaranges.go from openapi/generate.go and openapi/internal/{build,schema,export}/*.go of the\n" +
		"   current working tree — do not edit, not committed. Every `range` statement of the generation path. -/\n" +
		"namespace Rivaas.Gen.OpenAPIRanges\n\n" +
		"/-- file, function, ranged expression, kind of the ranged value (map / slice / string / int / iter / unknown),\n" +
		"    loop shape when it is a map (sortedKeys / keyedCopy / keyedCopyMayReturn / unordered: …) -/\n" +
		"structure RangeFact where\n  file : String\n  fn : String\n  expr : String\n  kind : String\n  shape : String\n  deriving DecidableEq, Repr\n\n"
	defer func() {
		if r := recover(); r != nil {
			msg := fmt.Sprint(r)
			if e, ok := r.(fatalErr); ok {
				msg = e.msg
			}
			out = head + "def extractError : Option String := some " + leanStr(msg) + "\n" +
				"def ranges : List RangeFact := []\ndef mapLoopCallees : List String := []\ndef mapIterCalls : List (String × String × Bool) := []\ndef projWrites : List String := []\n\nend Rivaas.Gen.OpenAPIRanges\n"
		}
	}()
	w := &orWorld{pkgs: map[string]*orPkg{}}
	base := filepath.Join(repo, "openapi")
	w.load("openapi", base)
	w.load("model", filepath.Join(base, "internal", "model"))
	w.load("build", filepath.Join(base, "internal", "build"))
	w.load("schema", filepath.Join(base, "internal", "schema"))
	w.load("export", filepath.Join(base, "internal", "export"))
	o := &orOut{callees: map[string]bool{}}
	var mapIters []string
	for _, pn := range []string{"openapi", "build", "schema", "export"} {
		p := w.pkgs[pn]
		for _, f := range p.p.files {
			file := shortFile(fset.Position(f.Pos()).Filename)
			if pn == "openapi" && filepath.Base(file) != "generate.go" {
				continue
			}
			for _, d := range f.Decls {
				fd, ok := d.(*ast.FuncDecl)
				if !ok || fd.Body == nil {
					continue
				}
				name := fd.Name.Name
				if fd.Recv != nil {
					name = recvType(fd) + "." + name
				}
				o.walkFunc(w, pn, file, name, fd.Recv, fd.Type, fd.Body)
				// map iteration hidden in an iterator: maps.Keys / maps.Values / maps.All — order-free only when the
				// call is the direct argument of slices.Sorted
				var stack []ast.Node
				ast.Inspect(fd.Body, func(m ast.Node) bool {
					if m == nil {
						stack = stack[:len(stack)-1]
						return true
					}
					if c, ok := m.(*ast.CallExpr); ok {
						switch src(c.Fun) {
						case "maps.Keys", "maps.Values", "maps.All":
							sorted := false
							if len(stack) > 0 {
								if pc, ok := stack[len(stack)-1].(*ast.CallExpr); ok && src(pc.Fun) == "slices.Sorted" {
									sorted = true
								}
							}
							mapIters = append(mapIters, fmt.Sprintf("(%s, %s, %v)", leanStr(name), leanStr(src(c)), sorted))
						}
					}
					stack = append(stack, m)
					return true
				})
			}
		}
	}
	sort.SliceStable(o.facts, func(i, j int) bool {
		if o.facts[i].file != o.facts[j].file {
			return o.facts[i].file < o.facts[j].file
		}
		return o.facts[i].line < o.facts[j].line
	})
	var b strings.Builder
	b.WriteString(head)
	b.WriteString("def extractError : Option String := none\n\n")
	b.WriteString("def ranges : List RangeFact := [\n")
	for i, f := range o.facts {
		sep := ","
		if i == len(o.facts)-1 {
			sep = ""
		}
		fmt.Fprintf(&b, "  ⟨%s, %s, %s, %s, %s⟩%s\n", leanStr(f.file), leanStr(f.fn), leanStr(f.expr), leanStr(f.kind), leanStr(f.shape), sep)
	}
	b.WriteString("]\n\n")
	var cs []string
	for c := range o.callees {
		cs = append(cs, c)
	}
	sort.Strings(cs)
	b.WriteString("/-- functions called from inside key-wise map loops -/\ndef mapLoopCallees : List String := [")
	for i, c := range cs {
		if i > 0 {
			b.WriteString(", ")
		}
		b.WriteString(leanStr(c))
	}
	b.WriteString("]\n\n")
	// which fields of the projection context its own methods assign
	pw := map[string]bool{}
	for _, rt := range []string{"proj30", "proj31"} {
		for _, d := range w.pkgs["export"].p.methods[rt] {
			rn := recvName(d)
			if rn == "" {
				continue
			}
			ast.Inspect(d.Body, func(m ast.Node) bool {
				var lhs []ast.Expr
				switch v := m.(type) {
				case *ast.AssignStmt:
					lhs = v.Lhs
				case *ast.IncDecStmt:
					lhs = []ast.Expr{v.X}
				}
				for _, l := range lhs {
					if id := orRootIdent(l); id != nil && id.Name == rn {
						pw[rt+": "+strings.TrimPrefix(src(l), rn+".")] = true
					}
				}
				return true
			})
		}
	}
	var pws []string
	for k := range pw {
		pws = append(pws, leanStr(k))
	}
	sort.Strings(pws)
	b.WriteString("/-- calls of maps.Keys / maps.Values / maps.All: (function, call, directly under slices.Sorted) -/\ndef mapIterCalls : List (String × String × Bool) := [" + strings.Join(mapIters, ", ") + "]\n\n")
	b.WriteString("/-- receiver fields assigned by the methods of the projection contexts proj30 / proj31 -/\ndef projWrites : List String := [" + strings.Join(pws, ", ") + "]\n\nend Rivaas.Gen.OpenAPIRanges\n")
	return b.String()
}
