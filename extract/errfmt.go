package main

// Gen/ErrFmt.lean (C06): structural facts of app.Context.fail / selectFormatter / the status helpers, of the three
// option functions of app/options.go and of the three formatters of errors/*.go, as flat event lists
// (extract/flatfacts.go). Tie/C06ErrFmt.lean states what Model/ErrFmt.lean relies on. Never exits.

import (
	"go/ast"
	"path/filepath"
	"sort"
)

func genErrFmt(repo string) string {
	g := newFlatGen("Rivaas.Gen.ErrFmt", "app/context.go, app/options.go, errors/{rfc9457,jsonapi,simple,formatter}.go")
	var app, errs *pkg
	g.guard("app", func() { app = parseDir(filepath.Join(repo, "app")) })
	g.guard("errors", func() { errs = parseDir(filepath.Join(repo, "errors")) })

	g.strList("fail_events", "`(*app.Context).fail`", g.events(g.fn(app, "Context", "fail")))
	g.strList("Fail_events", "`(*app.Context).Fail`", g.events(g.fn(app, "Context", "Fail")))
	g.strList("FailStatus_events", "`(*app.Context).FailStatus`", g.events(g.fn(app, "Context", "FailStatus")))
	g.strList("MustBind_events", "`(*app.Context).MustBind`", g.events(g.fn(app, "Context", "MustBind")))
	g.strList("selectFormatter_events", "`(*app.Context).selectFormatter`", g.events(g.fn(app, "Context", "selectFormatter")))

	// the status helpers: every method of Context whose whole body is `c.FailStatus(http.StatusX, err)`
	var helpers [][2]string
	if app != nil {
		var names []string
		for name := range app.methods["Context"] {
			names = append(names, name)
		}
		sort.Strings(names)
		for _, name := range names {
			d := app.methods["Context"][name]
			if d.Body == nil || len(d.Body.List) != 1 {
				continue
			}
			es, ok := d.Body.List[0].(*ast.ExprStmt)
			if !ok {
				continue
			}
			call, ok := es.X.(*ast.CallExpr)
			if !ok || flatCallee(call.Fun) != "FailStatus" || len(call.Args) != 2 {
				continue
			}
			sel, ok := call.Args[0].(*ast.SelectorExpr)
			if !ok {
				continue
			}
			helpers = append(helpers, [2]string{name, sel.Sel.Name})
		}
	}
	g.pairList("statusHelpers", "every method of `app.Context` whose body is `c.FailStatus(http.<Status>, err)`: method, status constant", helpers)

	for _, o := range []string{"WithErrorFormatter", "WithErrorFormatters", "WithDefaultErrorFormat"} {
		g.strList(o+"_closure", "the closure `app."+o+"` returns", g.closureEvents(g.fn(app, "", o)))
	}
	for _, f := range []string{"RFC9457", "JSONAPI", "Simple"} {
		g.strList(f+"_determineStatus", "`(*errors."+f+").determineStatus`", g.events(g.fn(errs, f, "determineStatus")))
		g.strList(f+"_Format", "`(*errors."+f+").Format`", g.events(g.fn(errs, f, "Format")))
	}
	g.strList("RFC9457_determineType", "`(*errors.RFC9457).determineType`", g.events(g.fn(errs, "RFC9457", "determineType")))
	g.strList("ProblemDetail_MarshalJSON", "`errors.ProblemDetail.MarshalJSON`", g.events(g.fn(errs, "ProblemDetail", "MarshalJSON")))
	g.strList("statusError_HTTPStatus", "`(*errors.statusError).HTTPStatus`", g.events(g.fn(errs, "statusError", "HTTPStatus")))
	g.strList("statusError_Error", "`(*errors.statusError).Error`", g.events(g.fn(errs, "statusError", "Error")))
	g.strList("WithStatus_events", "`errors.WithStatus`", g.events(g.fn(errs, "", "WithStatus")))
	return g.finish()
}
