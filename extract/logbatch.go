package main

// BatchLogger facts for Gen/Logging.lean (owner: C20; called from genLogging): every entry point that touches the batch
// runs under the batch mutex from its first statement on, `add` appends and flushes when the batch is full, the flush
// hands the entries to the Logger in slice order and empties the batch, `Close` flushes. Located by structure: the type
// is the one with a method that appends to a field of its receiver AND a method that ranges over that same field.

import (
	"fmt"
	"go/ast"
	"go/token"
	"strings"
)

type lgBatchFacts struct {
	typ                                                     string
	addHoldsMu, flushHoldsMu, addAppendsThenFlushesWhenFull bool
	flushRangesInOrder, flushResetsBatch, closeFlushes      bool
	noUnlockedTouch                                         bool
}

func (x *lgX) batchFacts() (F lgBatchFacts) {
	// the batching type and its entries field
	type cand struct{ t, field string }
	var found []cand
	for _, f := range x.fns {
		if f.recvN == "" {
			continue
		}
		ast.Inspect(f.decl.Body, func(n ast.Node) bool {
			as, ok := n.(*ast.AssignStmt)
			if !ok || len(as.Lhs) != 1 || len(as.Rhs) != 1 {
				return true
			}
			c, ok := as.Rhs[0].(*ast.CallExpr)
			if !ok || !lgIdent(c.Fun, "append") || len(c.Args) < 2 {
				return true
			}
			fld, ok := lgRecvField(as.Lhs[0], f.recvN)
			if !ok || fld == "records" {
				return true
			}
			// a composite literal appended: an entry, not a handler attribute list
			if lgComposite(c.Args[1]) != nil && strings.Contains(strings.ToLower(f.recvT), "batch") {
				found = append(found, cand{f.recvT, fld})
			}
			return true
		})
	}
	if len(found) != 1 {
		x.fail(nil, "expected exactly one method appending an entry to a batch field, found %d", len(found))
	}
	T, field := found[0].t, found[0].field
	F.typ = T
	var adder, flusher, closer *lgFn
	touching := map[string]*lgFn{}
	for _, f := range x.fns {
		if f.recvT != T {
			continue
		}
		uses := false
		ast.Inspect(f.decl.Body, func(n ast.Node) bool {
			if _, ok := n.(*ast.FuncLit); ok {
				return false
			}
			if fld, ok := lgRecvField(exprOf(n), f.recvN); ok && fld == field {
				uses = true
			}
			return true
		})
		if uses {
			touching[f.name] = f
		}
		ast.Inspect(f.decl.Body, func(n ast.Node) bool {
			switch v := n.(type) {
			case *ast.RangeStmt:
				if fld, ok := lgRecvField(v.X, f.recvN); ok && fld == field {
					flusher = f
				}
			case *ast.AssignStmt:
				if len(v.Rhs) == 1 {
					if c, ok := v.Rhs[0].(*ast.CallExpr); ok && lgIdent(c.Fun, "append") && len(v.Lhs) == 1 {
						if fld, ok := lgRecvField(v.Lhs[0], f.recvN); ok && fld == field {
							adder = f
						}
					}
				}
			}
			return true
		})
		if f.name == "Close" {
			closer = f
		}
	}
	if adder == nil || flusher == nil || closer == nil {
		x.fail(nil, "batch type %s: add / flush / Close not all found", T)
	}
	// callers of the flusher that take the mutex first; the flusher itself is the "locked" variant
	callsFlusher := func(f *lgFn) bool {
		hit := false
		ast.Inspect(f.decl.Body, func(n ast.Node) bool {
			if c, ok := n.(*ast.CallExpr); ok {
				if o, cc := lgMethodCall(c, flusher.name); cc != nil && lgIdent(o, f.recvN) {
					hit = true
				}
			}
			return true
		})
		return hit
	}
	F.addHoldsMu = x.holdsMu(T, adder.name)
	// every method that calls the flusher or touches the batch field — other than the flusher itself — holds the mutex
	F.flushHoldsMu, F.noUnlockedTouch = true, true
	nFlushCallers := 0
	for _, f := range x.fns {
		if f.recvT != T || f == flusher {
			continue
		}
		if callsFlusher(f) {
			nFlushCallers++
			if !x.holdsMu(T, f.name) {
				F.flushHoldsMu = false
			}
		}
		if touching[f.name] != nil && !x.holdsMu(T, f.name) {
			F.noUnlockedTouch = false
		}
	}
	if nFlushCallers == 0 {
		F.flushHoldsMu = false
	}
	// add: append, then `if len(<field>) >= <size> { flush }`
	appendIdx, flushIdx := -1, -1
	for i, s := range adder.decl.Body.List {
		if as, ok := s.(*ast.AssignStmt); ok && len(as.Lhs) == 1 {
			if fld, ok := lgRecvField(as.Lhs[0], adder.recvN); ok && fld == field {
				appendIdx = i
			}
		}
		if is, ok := s.(*ast.IfStmt); ok {
			if be, ok := is.Cond.(*ast.BinaryExpr); ok && be.Op == token.GEQ && strings.HasPrefix(x.text(be.X), "len(") && strings.Contains(x.text(be.X), "."+field) {
				ast.Inspect(is.Body, func(n ast.Node) bool {
					if c, ok := n.(*ast.CallExpr); ok {
						if o, cc := lgMethodCall(c, flusher.name); cc != nil && lgIdent(o, adder.recvN) {
							flushIdx = i
						}
					}
					return true
				})
			}
		}
	}
	F.addAppendsThenFlushesWhenFull = appendIdx >= 0 && flushIdx > appendIdx
	// flusher: one range over the field in slice order (a RangeStmt is), the entries are handed on inside it, the field is
	// emptied after the loop and nowhere before
	rangeIdx, resetIdx := -1, -1
	for i, s := range flusher.decl.Body.List {
		if rs, ok := s.(*ast.RangeStmt); ok {
			if fld, ok := lgRecvField(rs.X, flusher.recvN); ok && fld == field && rs.Key != nil {
				rangeIdx = i
			}
		}
		if as, ok := s.(*ast.AssignStmt); ok && len(as.Lhs) == 1 && len(as.Rhs) == 1 {
			if fld, ok := lgRecvField(as.Lhs[0], flusher.recvN); ok && fld == field {
				t := x.text(as.Rhs[0])
				if strings.HasSuffix(t, "[:0]") || t == "nil" || strings.HasPrefix(t, "make(") {
					resetIdx = i
				}
			}
		}
	}
	F.flushRangesInOrder = rangeIdx >= 0
	F.flushResetsBatch = resetIdx > rangeIdx && rangeIdx >= 0
	// Close: calls a method that holds the mutex and calls the flusher (Flush), or does so itself
	ast.Inspect(closer.decl.Body, func(n ast.Node) bool {
		if c, ok := n.(*ast.CallExpr); ok {
			if s, ok := c.Fun.(*ast.SelectorExpr); ok && lgIdent(s.X, closer.recvN) {
				for _, f := range x.fns {
					if f.recvT == T && f.name == s.Sel.Name && (f == flusher || callsFlusher(f)) {
						F.closeFlushes = true
					}
				}
			}
		}
		return true
	})
	return F
}

func exprOf(n ast.Node) ast.Expr {
	if e, ok := n.(ast.Expr); ok {
		return e
	}
	return nil
}

func (F lgBatchFacts) lean() string {
	var b strings.Builder
	b.WriteString("\n/-! the batching logger (logbatch.go) -/\n")
	fmt.Fprintf(&b, "def batchType : String := %s\n", leanStr(F.typ))
	bl := func(name, doc string, v bool) { fmt.Fprintf(&b, "/-- %s -/\ndef %s : Bool := %v\n", doc, name, v) }
	bl("batchAddHoldsMu", "the method that appends an entry takes the batch mutex first (Lock; defer Unlock)", F.addHoldsMu)
	bl("batchFlushCallersHoldMu", "every method that calls the flush-the-batch method takes the batch mutex first", F.flushHoldsMu)
	bl("batchNoUnlockedTouch", "no other method touches the batch field without taking the mutex first", F.noUnlockedTouch)
	bl("batchAddAppendsThenFlushesWhenFull", "add: append, then flush if len(batch) >= size", F.addAppendsThenFlushesWhenFull)
	bl("batchFlushRangesInOrder", "flush: one range over the batch in slice order", F.flushRangesInOrder)
	bl("batchFlushResetsAfter", "flush: the batch is emptied after that loop", F.flushResetsBatch)
	bl("batchCloseFlushes", "Close flushes what is left", F.closeFlushes)
	return b.String()
}
